"""DEFICIT: a black node taken out of one side must be made up for above (DESIGN 10.13; C02, C10).

The removal repair examines a node n that carries one black too few.  When its sibling s and both of s's children are black,
it paints s red: now the whole subtree under their parent p is one black short, on both sides alike.  That is only a repair if,
on every path from there to the end of the function, either p was red and is painted black (the missing black is back), or
the deficit is handed on: the repair continues with p as the examined node (a recursive call with p, or the next round of a
loop with n := p).  A path on which s was painted red and neither happens leaves every path through p one black short of the
rest of the tree: unequal black heights (C02), and the shape invariants the other rules lean on (a double-black node has a
sibling) are gone, which ends in a wild read (C10).

The rule is stated over the roles, not the names: a function F of a tree type with an index parameter (or loop cursor) n in
which a node S with S = sibling-of(n) - the result of a helper that returns the other child of node(n).parent, or that child
read directly - is assigned the colour Red.  It is the one place of the rebalancing that the test-suite's trees (black height
<= 3) never drive more than one level up, and a change made identically in all three copies and both mirrors is invisible
to the sibling / mirror comparison (TWIN); three independent adversaries went there (agent-C02-4, agent-C02-13, agent-C02-15)."""
from ssa import strip, show, walk
from engine import span_line

RULE = 'DEFICIT'
PROPS = ['C02', 'C10']


def parent_of(prog, v, base):
    v = strip(v)
    nf = prog.node_field(v) if v is not None and v.kind == 'load' else None
    return nf is not None and nf[1] == ('parent',) and strip(nf[0]) is base


def child_fn(prog, tgt, tree):
    """k if tgt returns, on every path, the left or the right link of node(parameter k) (both occur): `other_child(p, c)`"""
    key = ('childfn', tgt.path)
    if key in prog._summ_cache:
        return prog._summ_cache[key]
    res = None
    b = tgt.body
    if tgt.self_adt == tree and not tgt.is_closure and b.locals[0]['ty'] == 'u32' and b.ret_val:
        ks, sides, ok = set(), set(), True
        for rb, rv in b.ret_val.items():
            vals = [strip(rv)]
            if vals[0].kind == 'phi':
                vals = [strip(a) for a in vals[0].args]
            for v in vals:
                nf = prog.node_field(v) if v.kind == 'load' else None
                if nf is None or len(nf[1]) != 1 or nf[1][0] not in ('left', 'right') or strip(nf[0]).kind != 'param':
                    ok = False
                    break
                ks.add(strip(nf[0]).args[0])
                sides.add(nf[1][0])
        if ok and len(ks) == 1 and sides == {'left', 'right'}:
            res = ks.pop()
    prog._summ_cache[key] = res
    return res


def is_sibling_fn(prog, tgt, tree):
    """tgt(self, x) returns, on every path, the sibling of x: the left or right link of node(node(x).parent), read directly or
    through a helper that returns a child of its parameter"""
    key = ('siblingfn', tgt.path)
    if key in prog._summ_cache:
        return prog._summ_cache[key]
    prog._summ_cache[key] = False
    ok = False
    b = tgt.body
    if tgt.self_adt == tree and not tgt.is_closure and b.arg_count == 2 and b.locals[0]['ty'] == 'u32' and b.ret_val:
        ok = True
        for rb, rv in b.ret_val.items():
            base = sibling_base(prog, tgt, tree, rv)
            if base is None or base.kind != 'param' or base.args[0] != 2:
                ok = False
    prog._summ_cache[key] = ok
    return ok


def sibling_base(prog, fn, tree, s, depth=0):
    """the value n such that s is the sibling of n (through a sibling helper or read directly), else None"""
    s = strip(s)
    if s is None or depth > 3:
        return None
    if s.kind == 'phi':
        bases = [sibling_base(prog, fn, tree, a, depth + 1) for a in s.args]
        if bases and all(x is not None for x in bases) and all(x is bases[0] or (x.kind == bases[0].kind == 'param' and x.args == bases[0].args) for x in bases):
            return bases[0]
        return None
    if s.kind == 'call':
        tgt = prog.resolve(s)
        if tgt is not None and tgt is not fn and is_sibling_fn(prog, tgt, tree) and len(s.args) == 2:
            return strip(s.args[1])
        k = child_fn(prog, tgt, tree) if tgt is not None else None
        if k is not None and k - 1 < len(s.args):
            p = strip(s.args[k - 1])
            pf = prog.node_field(p) if p is not None and p.kind == 'load' else None
            if pf is not None and pf[1] == ('parent',):
                return strip(pf[0])
    if s.kind == 'load':
        # read directly: a child link of node(node(n).parent)
        nf = prog.node_field(s)
        if nf is not None and len(nf[1]) == 1 and nf[1][0] in ('left', 'right'):
            p = strip(nf[0])
            pf = prog.node_field(p) if p is not None and p.kind == 'load' else None
            if pf is not None and pf[1] == ('parent',):
                return strip(pf[0])
    return None


def fed_back(prog, f, n):
    """every call of f passes, as the examined node, a loop cursor that takes f's own result in the next round
    (`while i != EMPTY_REF { i = self.step(i) }`)"""
    if n.kind != 'param':
        return False
    k = n.args[0]
    callers = [(c, cf) for c, cf in prog.callers(f) if c.kind == 'call' and cf is not f]
    if not callers:
        return False
    for c, cf in callers:
        if k - 1 >= len(c.args):
            return False
        a = strip(c.args[k - 1])
        loops = cf.body.cfg.loops()
        if a is None or a.kind != 'phi' or a.extra.get('block') not in loops:
            return False
        body = loops[a.extra['block']]
        steps = [strip(x) for x, p_ in zip(a.args, a.extra['preds']) if p_ in body]
        if not steps or not all(x is c for x in steps):
            return False
    return True


def colour_name(prog, fn, v):
    from summaries import val_desc
    d = val_desc(prog, fn, v)
    return d[1] if d and d[0] == 'variant' else None


def red_truth(prog, tree):
    """truth value of the canonical guard ('discr(X.color)', t) that means X is red"""
    node_adts = [a for a in prog.node_adts if a.split('::')[0] == tree.split('::')[0]]
    for a in prog.adts.values():
        if a['path'].split('::')[-1] == 'Color' and a['path'].split('::')[0] == tree.split('::')[0]:
            for i, var in enumerate(a.get('variants') or []):
                if var['name'] == 'Red':
                    d = var.get('discr', i)
                    return d == 1
    return False


def run(ctx):
    prog = ctx.prog
    import gef as G
    n_sites = 0
    for tree in sorted(prog.tree_adts):
        rt = red_truth(prog, tree)
        fns = [f for f in prog.fns.values() if f.self_adt == tree and not f.is_closure and f.info.get('mir')]
        # functions that take over a deficit: those with a sibling-red site themselves (fixpoint not needed: recursion is on F)
        cands = {}
        for f in fns:
            b = f.body
            for st in b.stores:
                acc = prog.accessor_call(strip(st.root))
                if acc is None or st.fields() != ('color',):
                    continue
                if colour_name(prog, f, st.value) != 'Red':
                    continue
                n = sibling_base(prog, f, tree, acc[2])
                if n is None:
                    continue
                # the examined node is the function's parameter, or the cursor of a loop that starts from it (the repair's own
                # protocol); a removal that folds a leaf-level case into itself is not held to it
                if n.kind == 'phi':
                    lp = b.cfg.loops()
                    h = n.extra.get('block')
                    if h not in lp or not all(strip(a).kind == 'param' for a, p_ in zip(n.args, n.extra['preds']) if p_ not in lp[h]):
                        continue
                elif n.kind != 'param':
                    continue
                cands.setdefault(f.path, []).append((st, n))
        for f in fns:
            if f.path not in cands:
                continue
            b = f.body
            cfg = b.cfg
            g = G.Gef(prog, f)
            loops = cfg.loops()
            for st, n in cands[f.path]:
                n_sites += 1
                bs = st.point[0]
                line = span_line(st, f.line)
                sig = 'sibling-red(%s)' % b.local_name(n.args[0] if n.kind == 'param' else n.extra.get('local', 0))
                # the parent of n
                pphis = []
                if n.kind == 'phi':
                    # loop form: a parent cursor carried along with the node cursor (CLIMB holds the pair to the child/parent
                    # relation): a header phi that starts as the parent link of the node cursor's start
                    h0 = n.extra['block']
                    n_inits = [strip(a) for a, p_ in zip(n.args, n.extra['preds']) if p_ not in loops[h0]]
                    for q in b.phis.get(h0, {}).values():
                        if q is n or 'same_as' in q.extra:
                            continue
                        q_inits = [strip(a) for a, p_ in zip(q.args, q.extra['preds']) if p_ not in loops[h0]]
                        if q_inits and all(any(parent_of(prog, qi, ni) for ni in n_inits) for qi in q_inits):
                            pphis.append(q)

                def isP(v):
                    return parent_of(prog, v, n) or any(strip(v) is q for q in pphis)
                pterms = set()
                for v in b._vals:
                    if (v.kind == 'load' and isP(v)) or any(v is q for q in pphis):
                        pterms.add(g.term(v))
                # hand-over sites: a call of a deficit-taking function with the parent as the examined node; a back edge with n := p
                sites = {}
                for c in b.calls:
                    tgt = prog.resolve(c)
                    if tgt is None or tgt.path not in cands:
                        continue
                    if any(isP(a) for a in c.args[1:]):
                        sites[c.point[0]] = 'handed to %s' % tgt.name
                if n.kind == 'phi' and n.extra['block'] in loops:
                    h = n.extra['block']
                    for a, p in zip(n.args, n.extra['preds']):
                        if p in loops[h] and isP(a):
                            sites[p] = 'next round of the loop examines the parent'
                # handed back: a step function that RETURNS the node still carrying the deficit to a caller that feeds it in again
                if b.locals[0]['ty'] == 'u32' and fed_back(prog, f, n):
                    for r_, rv_ in b.ret_val.items():
                        rv0 = strip(rv_)
                        if rv0 is not None and rv0.kind == 'phi' and rv0.extra.get('block') == r_ and len(rv0.args) == len(rv0.extra.get('preds', ())):
                            for a_, p_ in zip(rv0.args, rv0.extra['preds']):
                                if isP(a_):
                                    sites[p_] = 'returned to the driving loop as the node to examine next'
                        elif rv0 is not None and isP(rv0):
                            sites[r_] = 'returned to the driving loop as the node to examine next'
                # absorb sites: node(p).color := Black under "p is red"
                for st2 in b.stores:
                    acc2 = prog.accessor_call(strip(st2.root))
                    if acc2 is None or st2.fields() != ('color',) or colour_name(prog, f, st2.value) != 'Black' or not isP(acc2[2]):
                        continue
                    gs = g.guards(st2.point[0])
                    red_marks = (rt, 'v%d' % (1 if rt else 0))       # `== Red` as a truth value, or the Red arm of a `match`
                    import re
                    untag = lambda x: re.sub(r'@\d+', '', x)        # loads carry the number of writes before them; the test may precede the sibling's recolouring or follow it
                    if any(untag(txt) == 'discr(node(%s).color)' % untag(pt) and tr in red_marks for (txt, tr) in gs for pt in pterms):
                        sites[st2.point[0]] = 'red parent painted black'
                # coverage: every return reachable from the store passes a site
                if bs in sites and any((c.point[0] == bs and c.point > st.point) for c in b.calls):
                    ctx.add(RULE, f, sig, 'ok', 'after the sibling is painted red the deficit is %s in the same block' % sites[bs], PROPS, line)
                    continue
                reach = cfg.reachable_from(bs)
                bad = None
                for r in cfg.returns:
                    if r not in reach and r != bs:
                        continue
                    if r == bs:
                        bad = r
                        break
                    if r in sites:
                        continue
                    if cfg.paths_avoiding(bs, r, set(sites)):
                        bad = r
                        break
                # a loop whose back edge is not a hand-over also re-enters the repair with the same node: covered by the returns
                if bad is None:
                    ctx.add(RULE, f, sig, 'ok', 'on every path after the sibling is painted red, the parent is either a red node painted black or becomes the examined node (%s)' % ', '.join(sorted(set(sites.values()))), PROPS, line,
                            {'sites': {str(k): v for k, v in sites.items()}})
                else:
                    ctx.add(RULE, f, sig, 'violation',
                            'the sibling of the examined node is painted red (the subtree under their parent is now one black short on both sides), but a path to the end of %s neither paints a red parent black nor continues the repair with the parent as the examined node: black heights stay unequal%s' % (
                                f.name, ('; found only: ' + ', '.join(sorted(set(sites.values())))) if sites else ''),
                            PROPS, line, {'sites': {str(k): v for k, v in sites.items()}, 'uncovered_return_block': bad})
    ctx.stat(RULE, sibling_red_sites=n_sites)
    if n_sites < 3:
        ctx.anchor_missing(RULE, 'sites of the removal repair that paint the examined node\'s sibling red (one per tree copy)', PROPS, n_sites, 3)
    run_redred(ctx)
    run_sentinel_colour(ctx)
    run_spliced_colour(ctx)


# ---- REDRED: the insert repair's recolouring pushes a red node up; the repair must follow it ---------------------------------------
def run_sentinel_colour(ctx):
    """The temporary sentinel stands for a removed BLACK leaf: the position it holds is one black short.  Its own colour field is
    whatever the linking function wrote.  A repair that decides anything from the colour of its examined node therefore decides
    from that field when the examined node is the sentinel: it must have been written Black (a red 'node' would be taken to absorb
    the deficit, and the repair would end before it began)."""
    prog = ctx.prog
    for tree in sorted(prog.tree_adts):
        fns = [f for f in prog.fns.values() if f.self_adt == tree and not f.is_closure and f.info.get('mir')]
        colours = set()
        for f in fns:
            for st in f.body.stores:
                acc = prog.accessor_call(strip(st.root))
                if acc is not None and st.fields() == ('color',) and prog.is_nil_index(acc[2]) and f.name != 'new':
                    colours.add(colour_name(prog, f, st.value))
        # (function, parameter) pairs that may hold the sentinel
        holders = set()
        work = []
        for f in fns:
            for c in f.body.calls:
                t = prog.resolve(c)
                if t is None or t.self_adt != tree or t.path in prog.accessors or t.is_closure:
                    continue
                for i, a in enumerate(c.args):
                    if prog.is_nil_index(a):
                        work.append((t, i + 1))
        while work:
            t, k = work.pop()
            if (t.path, k) in holders or not t.info.get('mir'):
                continue
            holders.add((t.path, k))
            for c in t.body.calls:
                t2 = prog.resolve(c)
                if t2 is None or t2.self_adt != tree or t2.path in prog.accessors or t2.is_closure:
                    continue
                for i, a in enumerate(c.args):
                    sa = strip(a)
                    if sa is not None and sa.kind == 'param' and sa.args[0] == k:
                        work.append((t2, i + 1))
        reads = []
        for (path, k) in sorted(holders):
            f = prog.fns[path]
            b = f.body
            for v in b._vals:
                if v.kind not in ('load', 'ref') or not v.point:
                    continue
                nf = prog.node_field(v)
                if nf is None or nf[1] != ('color',):
                    continue
                if v.kind == 'ref' and v.extra.get('mut'):
                    continue        # a place to write to, not a read
                base = strip(nf[0])
                if base is not None and base.kind == 'param' and base.args[0] == k:
                    # a read under `n != NIL_INDEX` is a read of a real node
                    guarded = False
                    for sblk, d in b.switch_discr.items():
                        sd = strip(d)
                        if sd is not None and sd.kind == 'bin' and sd.args[0] in ('Eq', 'Ne'):
                            xs = [strip(sd.args[1]), strip(sd.args[2])]
                            if any(x is base for x in xs) and any(prog.is_nil_index(x) for x in xs):
                                from rules.gate import edge_truth
                                t_ = b.mir['blocks'][sblk]['term']
                                for succ in set(b.cfg.succ[sblk]):
                                    tr = edge_truth(t_, succ)
                                    if tr is not None and (tr == (sd.args[0] == 'Ne')) and b.cfg.pred[succ] == [sblk] and b.cfg.dominates(succ, v.point[0]):
                                        guarded = True
                    if not guarded:
                        reads.append((f, v))
        anchor = [f for f in fns if any(p_ == f.path for p_, _ in holders)]
        if not holders:
            continue
        f0 = reads[0][0] if reads else sorted(anchor, key=lambda f: f.path)[0]
        if reads and colours != {'Black'}:
            ctx.add('DEFICIT', f0, 'sentinel-colour', 'violation',
                    '%s reads the colour of its examined node, which may be the sentinel standing for a removed black leaf; the sentinel is created %s: it is taken for a red node and the missing black is never repaired'
                    % (f0.name, '/'.join(sorted(c or '?' for c in colours)) or 'with no colour'), ['C02'], span_line(reads[0][1], f0.line))
        else:
            ctx.add('DEFICIT', f0, 'sentinel-colour', 'ok', 'the colour of the examined node is never read where it may be the sentinel' if not reads else 'the sentinel is created Black', ['C02'], f0.line)


def run_spliced_colour(ctx):
    """The removal decides 'a black node went missing' from a colour.  It must be the colour of the node that is actually spliced out
    of the tree (the one whose slot is released): when the entry to delete has two children that is its in-order neighbour, not the
    entry's own node.  Checked where the released index is chosen: the colour tested is read from the released node - either after
    the choice, or chosen side by side with it (the same merge, the same sides)."""
    prog = ctx.prog
    from rules.pool import pool_roles, tree_pool, calls_to
    roles = pool_roles(prog)
    for tree in sorted(prog.tree_adts):
        pool, _ = tree_pool(prog, tree)
        r = roles.get(pool)
        if not r:
            continue
        fns = [f for f in prog.fns.values() if f.self_adt == tree and not f.is_closure and f.info.get('mir')]
        for f in fns:
            b = f.body
            rel = calls_to(prog, f, r['release'])
            # the removal proper: releases a slot and starts a repair with the sentinel
            if not rel or not any(any(prog.is_nil_index(a) for a in c.args) for c in b.calls if prog.resolve(c) is not None and prog.resolve(c).self_adt == tree):
                continue
            R = strip(rel[0].args[-1])
            problems = []
            n_tests = 0
            for sblk, d in b.switch_discr.items():
                sd = strip(d)
                if sd is None:
                    continue
                if sd.kind == 'bin' and sd.args[0] in ('Eq', 'Ne'):
                    ops = [strip(sd.args[1]), strip(sd.args[2])]
                elif sd.kind == 'call' and sd.callee_name() in ('eq', 'ne') and len(sd.args) == 2:
                    ops = [strip(a) for a in sd.args]
                    ops = [strip(o.args[0]) if o is not None and o.kind == 'ref' and not o.fields() and o.args else o for o in ops]
                elif sd.kind == 'discr':
                    ops = [strip(sd.args[0])]            # `match colour { Red => .., Black => .. }`
                else:
                    continue
                def is_colour(o):
                    return o is not None and (o.ty or '').split('<')[0].split('::')[-1] == 'Color'
                if not any(is_colour(o) for o in ops):
                    continue
                cols = [o for o in ops if is_colour(o) and o.kind not in ('const', 'agg')]
                for cval in cols:
                    n_tests += 1
                    why = colour_of_released(prog, f, cval, R)
                    if why:
                        problems.append(why)
            if n_tests == 0:
                continue
            if problems:
                ctx.add('DEFICIT', f, 'spliced-colour', 'violation', problems[0], ['C02'], f.line)
            else:
                ctx.add('DEFICIT', f, 'spliced-colour', 'ok', 'the colour that decides whether a black node went missing is the colour of the node spliced out (%d test(s))' % n_tests, ['C02'], f.line)


def colour_of_released(prog, f, cval, R, depth=0):
    """None if the colour value cval is the colour of node R; else a description"""
    cval = strip(cval)
    R = strip(R)
    if cval is None or depth > 6:
        return 'a colour of unknown origin decides the repair'
    # both chosen together as components of one merged tuple: `let (delete_index, .., colour) = if two_children { .. } else { .. }`
    cs, rs = sides(cval), sides(R)
    if cs is not None and rs is not None and cs[0] == rs[0] and (cs[2] or rs[2]):
        for ca, ra in zip(cs[1], rs[1]):
            w = colour_of_released(prog, f, ca, ra, depth + 1)
            if w:
                return w
        return None
    # both handed in by the caller: decided at the call sites
    if cval.kind == 'param' and R.kind == 'param':
        callers = [(c, g) for c, g in prog.callers(f) if not g.is_closure and g.info.get('mir')]
        if callers:
            for c, g in callers:
                if len(c.args) < max(cval.args[0], R.args[0]):
                    return 'a colour of unknown origin decides the repair'
                w = colour_of_released(prog, g, c.args[cval.args[0] - 1], c.args[R.args[0] - 1], depth + 1)
                if w:
                    return w
            return None
    if cval.kind in ('load', 'ref'):
        nf = prog.node_field(cval)
        if nf is not None and nf[1] == ('color',):
            base = strip(nf[0])
            if base is R:
                return None
            if R.kind == 'phi':
                return 'the colour tested is that of node(%s) whichever node is spliced out (%s): when the entry has two children its in-order neighbour is removed in its place, and the neighbour\'s colour decides' % (show(base, 2), show(R, 2))
            return None if same_index(prog, base, R) else 'the colour tested is that of node(%s), the node released is %s' % (show(base, 2), show(R, 2))
        return 'a colour of unknown origin decides the repair'
    if cval.kind == 'phi':
        if R.kind == 'phi' and R.extra.get('block') == cval.extra.get('block') and list(R.extra.get('preds', [])) == list(cval.extra.get('preds', [])):
            for ca, ra in zip(cval.args, R.args):
                w = colour_of_released(prog, f, ca, ra, depth + 1)
                if w:
                    return w
            return None
        # a colour merged where the released index is not: every side must be the released node's
        for ca in cval.args:
            w = colour_of_released(prog, f, ca, R, depth + 1)
            if w:
                return w
        return None
    return 'a colour of unknown origin decides the repair'


def sides(v):
    """v as a choice made at a merge: ((block, preds), [value on every side], came-out-of-a-tuple) for a merge itself or for
    field k of a merge of tuples; else None"""
    v = strip(v)
    if v is None:
        return None
    if v.kind == 'phi' and not v.extra.get('anyof'):
        return (v.extra.get('block'), tuple(v.extra.get('preds', ()))), list(v.args), False
    if v.kind in ('load', 'ref') and len(v.args[1]) == 1:
        ph = strip(v.args[0])
        k = v.args[1][0]
        if ph is None or ph.kind != 'phi' or not (isinstance(k, str) and k.isdigit()):
            return None
        comps = []
        for a in ph.args:
            sa = strip(a)
            if sa is None or sa.kind != 'agg' or int(k) >= len(sa.args):
                return None
            comps.append(sa.args[int(k)])
        return (ph.extra.get('block'), tuple(ph.extra.get('preds', ()))), comps, True
    return None


def same_index(prog, a, b2):
    a, b2 = strip(a), strip(b2)
    if a is b2:
        return True
    if a is None or b2 is None:
        return False
    if a.kind == 'param' and b2.kind == 'param':
        return a.args[0] == b2.args[0]
    return False


def run_redred(ctx):
    """In the insert repair, the red-uncle case paints the grandparent red.  The grandparent's own parent may be red too: unless it
    is tested and found absent or black, the repair must continue with the grandparent as the new red node (recursive call or the
    next round of a loop).  A path from that store to a return that does neither leaves two red nodes in a row (C02)."""
    prog = ctx.prog
    from rules.gate import edge_truth
    n_sites = 0
    for tree in sorted(prog.tree_adts):
        rt = red_truth(prog, tree)
        fns = [f for f in prog.fns.values() if f.self_adt == tree and not f.is_closure and f.info.get('mir')]
        cands = {}
        for f in fns:
            b = f.body
            for st in b.stores:
                acc = prog.accessor_call(strip(st.root))
                if acc is None or st.fields() != ('color',) or colour_name(prog, f, st.value) != 'Red':
                    continue
                g = strip(acc[2])
                # G = node(P).parent with P a parameter (or a loop cursor started from one) whose own colour is set Black
                nf = prog.node_field(g) if g.kind == 'load' else None
                if nf is None or nf[1] != ('parent',):
                    continue
                pv = strip(nf[0])
                if pv.kind not in ('param', 'phi'):
                    continue
                blackened = any(prog.accessor_call(strip(s2.root)) is not None and s2.fields() == ('color',) and colour_name(prog, f, s2.value) == 'Black'
                                and strip(prog.accessor_call(strip(s2.root))[2]) is pv and b.cfg.dominates(s2.point[0], st.point[0]) for s2 in b.stores)
                if not blackened:
                    continue
                cands.setdefault(f.path, []).append((st, g, pv))
        for f in fns:
            for st, g, pv in cands.get(f.path, []):
                n_sites += 1
                b = f.body
                cfg = b.cfg
                line = span_line(st, f.line)

                def is_gg(v):
                    return parent_of(prog, v, g) or (strip(v).kind == 'load' and prog.node_field(strip(v)) is not None and prog.node_field(strip(v))[1] == ('parent',)
                                                     and same_load(prog, strip(prog.node_field(strip(v))[0]), g))
                site_blocks = {}
                for c in b.calls:
                    tgt = prog.resolve(c)
                    if tgt is not None and tgt.path in cands and any(same_load(prog, strip(a), g) for a in c.args[1:]):
                        site_blocks[c.point[0]] = 'repair continued with the grandparent (%s)' % tgt.name
                if pv.kind == 'phi' and pv.extra.get('block') in cfg.loops():
                    h = pv.extra['block']
                    for a, p_ in zip(pv.args, pv.extra['preds']):
                        if p_ in cfg.loops()[h] and is_gg(a):
                            site_blocks[p_] = 'next round of the loop continues above the grandparent'
                # handed back: a step function returns the pair to continue with to a caller that loops on it
                todo_, seen_ = [strip(x) for x in b_ret_vals(b)], set()
                while todo_:
                    x_ = todo_.pop()
                    if x_ is None or x_.id in seen_:
                        continue
                    seen_.add(x_.id)
                    if x_.kind == 'phi':
                        todo_.extend(strip(y_) for y_ in x_.args)
                    elif x_.kind == 'agg' and x_.point is not None and any(same_load(prog, z, g) for z in walk(x_) if z.kind == 'load'):
                        site_blocks[x_.point[0]] = 'returned to the driving loop as the pair to continue with'
                justified = set()      # edges that establish "the grandparent has no red parent"
                precise = set()
                for s0, d0 in b.switch_discr.items():
                    d = strip(d0)
                    t = b.mir['blocks'][s0]['term']
                    for succ in set(cfg.succ[s0]):
                        tr = edge_truth(t, succ)
                        if d.kind == 'bin' and d.args[0] in ('Eq', 'Ne') and tr is not None:
                            x, y = strip(d.args[1]), strip(d.args[2])
                            for p, q in ((x, y), (y, x)):
                                if prog.is_empty_ref(q) and is_gg(p):
                                    precise.add(s0)
                                    if tr if d.args[0] == 'Eq' else not tr:
                                        justified.add((s0, succ))
                                if prog.is_empty_ref(q) is False and False:
                                    pass
                        # colour test of node(gg): the not-red side
                        col = None
                        for z in walk(d):
                            if z.kind in ('load', 'ref') and z.fields() == ('color',) and prog.accessor_call(strip(z.args[0])) is not None and is_gg(prog.accessor_call(strip(z.args[0]))[2]):
                                col = z
                        if col is not None:
                            import gef as G
                            ge = G.Gef(prog, f)
                            if tr is not None:
                                txt, tv = ge.cond(d0, tr)
                            else:
                                vals = [tv_ for tv_, tb_ in t['targets'] if tb_ == succ]
                                txt, tv = ge.term(d0), (vals[0] == 1 if vals and vals[0] in (0, 1) else None)
                            if txt.startswith('discr(') and tv is not None:
                                precise.add(s0)
                                if tv != rt:
                                    justified.add((s0, succ))
                # any other test that looks at the great-grandparent (through a predicate helper: `!is_black(gg)`, `color_of(gg) ==
                # Some(Red)`): the side that does not lead to the continuation is taken as "no red parent".  (Which side is which
                # is the sibling / mirror comparison's business; what this clause adds is that the continuation exists and is
                # skipped only on the strength of such a test.)
                if site_blocks:
                    reach_site = set()
                    for sb_ in site_blocks:
                        reach_site |= cfg.can_reach([sb_]) if hasattr(cfg, 'can_reach') else set()
                    for s0, d0 in b.switch_discr.items():
                        if s0 in precise or not any(is_gg(z) for z in walk(d0) if z.kind in ('load', 'phi', 'param', 'call')):
                            continue
                        for succ in set(cfg.succ[s0]):
                            if succ not in reach_site and succ not in site_blocks:
                                justified.add((s0, succ))
                # g is the root: `g == root` / root test on g
                for s0, d0 in b.switch_discr.items():
                    d = strip(d0)
                    t = b.mir['blocks'][s0]['term']
                    if d.kind == 'bin' and d.args[0] in ('Eq', 'Ne'):
                        x, y = strip(d.args[1]), strip(d.args[2])
                        for p, q in ((x, y), (y, x)):
                            if q.kind == 'load' and prog.self_field(q) == ('root',) and same_load(prog, p, g):
                                for succ in set(cfg.succ[s0]):
                                    tr = edge_truth(t, succ)
                                    if tr is not None and (tr if d.args[0] == 'Eq' else not tr):
                                        justified.add((s0, succ))
                # search: from the store, can a return be reached without a site block and without a justified edge?
                bad = None
                seen = set()
                stack = [st.point[0]]
                if st.point[0] in site_blocks and any(c.point[0] == st.point[0] and c.point > st.point for c in b.calls):
                    stack = []
                while stack and bad is None:
                    x = stack.pop()
                    if x in seen:
                        continue
                    seen.add(x)
                    if x in cfg.returns and x != st.point[0] or (x in cfg.returns and not cfg.succ[x]):
                        if x not in site_blocks:
                            bad = x
                            break
                    for s2 in cfg.succ[x]:
                        if s2 not in cfg.can_return:
                            continue
                        if (x, s2) in justified:
                            continue
                        if s2 in site_blocks:
                            continue
                        stack.append(s2)
                sig = 'grandparent-red(%s)' % b.local_name(pv.args[0] if pv.kind == 'param' else pv.extra.get('local', 0))
                if bad is None:
                    ctx.add('REDRED', f, sig, 'ok', 'after the grandparent is painted red, every path either finds that it has no parent / a black parent / is the root, or continues the repair with it', ['C02'], line,
                            {'sites': {str(k): v for k, v in site_blocks.items()}, 'justified_edges': sorted(map(str, justified))})
                else:
                    ctx.add('REDRED', f, sig, 'violation',
                            'the grandparent is painted red, but a path to the end of %s neither establishes that its own parent is absent or black nor continues the repair with the grandparent: a red node can be left with a red parent' % f.name,
                            ['C02'], line, {'sites': {str(k): v for k, v in site_blocks.items()}, 'uncovered_return_block': bad})
    ctx.stat('REDRED', grandparent_red_sites=n_sites)
    if n_sites < 3:
        ctx.anchor_missing('REDRED', 'sites of the insert repair that paint the grandparent red (one per tree copy)', ['C02'], n_sites, 3)


def b_ret_vals(b):
    return list(b.ret_val.values())


def same_load(prog, a, b2):
    """a and b2 are the same value, or loads of the same field of the same arena element"""
    a, b2 = strip(a), strip(b2)
    if a is b2:
        return True
    if a is None or b2 is None or a.kind != 'load' or b2.kind != 'load':
        return False
    na, nb = prog.node_field(a), prog.node_field(b2)
    return na is not None and nb is not None and na[1] == nb[1] and (strip(na[0]) is strip(nb[0]) or same_load(prog, na[0], nb[0]))
