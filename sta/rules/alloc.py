"""ALLOC: allocations on the ordered-export path are affine in the entry count (DESIGN section 4, C19)."""
from ssa import strip, show, walk
from origins import vec_field_of
from engine import span_line

RULE = 'ALLOC'
PROPS = ['C19']
ALLOCATORS = ('with_capacity', 'reserve', 'reserve_exact', 'from_elem', 'resize', 'with_capacity_in')
SMALL = 64


class Form:
    """symbolic size: kind in CONST / AFFINE / COUNTER / BAD"""

    def __init__(self, kind, terms=None, const=0, why=''):
        self.kind = kind
        self.terms = terms or {}      # atom -> coefficient
        self.const = const
        self.why = why

    def __repr__(self):
        if self.kind == 'CONST':
            return 'const %d' % self.const
        if self.kind == 'AFFINE':
            parts = ['%+d*%s' % (c, 'len(self.%s)' % '.'.join(a[1]) if a[0] == 'len' else ('self.%s (entry counter)' % '.'.join(a[1]) if a[0] == 'entries' else str(a))) for a, c in sorted(self.terms.items(), key=str)]
            return ' '.join(parts) + (' %+d' % self.const if self.const else '')
        if self.kind == 'COUNTER':
            return 'loop counter (scaled by a constant)'
        return 'non-affine: ' + self.why


def bad(why):
    return Form('BAD', why=why)


def add(a, b, sign=1):
    if a.kind == 'BAD':
        return a
    if b.kind == 'BAD':
        return b
    if 'REC' in (a.kind, b.kind):
        other = b if a.kind == 'REC' else a
        if other.kind == 'CONST' and not (b.kind == 'REC' and sign < 0):
            return Form('REC')        # x' = x + c : arithmetic progression
        return bad('loop-carried value grows by a non-constant step')
    if 'COUNTER' in (a.kind, b.kind):
        other = b if a.kind == 'COUNTER' else a
        if other.kind in ('CONST', 'COUNTER'):
            return Form('COUNTER')
        return bad('sum of a loop counter and a length')
    terms = dict(a.terms)
    for k, c in b.terms.items():
        terms[k] = terms.get(k, 0) + sign * c
        if terms[k] == 0:
            del terms[k]
    return Form('AFFINE' if terms else 'CONST', terms, a.const + sign * b.const)


def scale(a, k):
    if a.kind == 'BAD':
        return a
    if a.kind == 'REC':
        return a if k == 1 else bad('loop-carried value is multiplied / shifted in every iteration (geometric growth)')
    if a.kind == 'COUNTER':
        return a
    return Form(a.kind, {t: c * k for t, c in a.terms.items()}, a.const * k)


def sizeform(prog, fn, v, depth=0, _seen=None):
    v = strip(v)
    if _seen is None:
        _seen = set()
    if v is None or depth > 12:
        return bad('too deep')
    k = v.kind
    if k == 'const':
        if isinstance(v.args[0], int):
            return Form('CONST', const=v.args[0])
        return bad('non-integer constant')
    if k == 'load':
        # (AddWithOverflow(a,b)).0
        root = v.args[0]
        if root.kind == 'bin' and v.fields() == ('0',):
            return sizeform(prog, fn, root, depth + 1, _seen)
        sf_ = prog.self_field(v)
        if sf_ and len(sf_) == 1 and fn.self_adt in prog.tree_adts:
            # a maintained entry counter (ENTITY's counter discipline: 0 from constructors and clear, +1 per slot taken for an
            # entry, -1 per removal): it IS the entry count
            from rules.entity import counter_discipline
            if counter_discipline(prog, fn.self_adt, sf_[0]) is None:
                return Form('AFFINE', {('entries', sf_): 1})
        return bad('value read from memory: %s' % show(v, 3))
    if v.ty == 'bool' or (k == 'bin' and v.args[0] in ('Eq', 'Ne', 'Lt', 'Le', 'Gt', 'Ge')):
        return Form('CONST', const=1)        # a truth value widened to an integer: at most 1
    if k == 'bin':
        op, a, b = v.args
        fa = sizeform(prog, fn, a, depth + 1, _seen)
        fb = sizeform(prog, fn, b, depth + 1, _seen)
        base = op.replace('WithOverflow', '').replace('Unchecked', '')
        if base == 'Add':
            return add(fa, fb, 1)
        if base == 'Sub':
            if fb.kind == 'COUNTER':
                return bad('subtraction of a loop counter')
            return add(fa, fb, -1)
        if base == 'Mul':
            if fa.kind == 'CONST':
                return scale(fb, fa.const)
            if fb.kind == 'CONST':
                return scale(fa, fb.const)
            return bad('product of two non-constants')
        if base == 'Shl':
            if fb.kind == 'CONST' and 0 <= fb.const < 16:
                return scale(fa, 1 << fb.const)
            return bad('shift by a non-constant amount (%s << %s): exponential in the shifted-by value' % (show(strip(a), 2), show(strip(b), 2)))
        if base in ('Shr', 'Div'):
            if fb.kind == 'CONST' and fa.kind != 'BAD':
                return fa if fa.kind == 'COUNTER' else Form(fa.kind, fa.terms, fa.const)   # upper bound
            return bad('division by a non-constant')
        return bad('operator %s' % op)
    if k == 'phi':
        if v.id in _seen:
            return Form('REC')     # the recurrence itself
        _seen = _seen | {v.id}
        # counter: operands are constants, other counters, or this value plus a constant
        forms = []
        is_counter = False
        for a in v.args:
            sa = strip(a)
            f = sizeform(prog, fn, sa, depth + 1, _seen)
            if f.kind == 'REC':
                is_counter = True
                continue
            forms.append(f)
        for f in forms:
            if f.kind == 'BAD':
                return f
        if is_counter:
            if v.id not in (_seen - {v.id}) and all(f.kind in ('CONST', 'COUNTER') for f in forms):
                return Form('COUNTER')
            return bad('loop-carried value that also depends on a length')
        out = forms[0] if forms else bad('empty phi')
        for f in forms[1:]:
            if f.kind != out.kind or f.terms != out.terms:
                if out.kind in ('CONST', 'COUNTER') and f.kind in ('CONST', 'COUNTER'):
                    out = Form('COUNTER') if 'COUNTER' in (out.kind, f.kind) else Form('CONST', const=max(out.const, f.const))
                    continue
                return bad('differs between paths')
            out = Form(out.kind, out.terms, max(out.const, f.const))
        return out
    if k == 'call':
        name = v.callee_name()
        tgt = prog.resolve(v)
        if tgt is not None:
            b = tgt.body
            forms = [sizeform(prog, tgt, rv, depth + 1) for rv in b.ret_val.values()]
            if not forms:
                return bad('no return')
            out = forms[0]
            for f in forms[1:]:
                if f.kind == 'BAD':
                    return f
                if (f.kind, f.terms) != (out.kind, out.terms):
                    if out.kind in ('CONST', 'COUNTER') and f.kind in ('CONST', 'COUNTER'):
                        out = Form('COUNTER') if 'COUNTER' in (out.kind, f.kind) else Form('CONST', const=max(out.const, f.const))
                        continue
                    return bad('callee %s returns different forms' % tgt.name)
            if out.kind == 'AFFINE' and any(a[0] == 'len' for a in out.terms) and not (v.args and strip(v.args[0]).kind == 'param'):
                # a method of a sub-object (`self.store.occupied()`): its lengths are lengths of self.<that field>.<...>
                recv = v.args[0] if v.args else None
                seen_ = 0
                while recv is not None and strip(recv).kind == 'ref' and not strip(recv).fields() and seen_ < 4:
                    recv = strip(recv).args[0]
                    seen_ += 1
                pre = prog.self_field(strip(recv)) if recv is not None else None
                if pre is None:
                    return bad('length form of a different object')
                return Form(out.kind, {(('len', tuple(pre) + tuple(a[1])) if a[0] == 'len' else a): c for a, c in out.terms.items()}, out.const)
            return out
        if name == 'len' and v.args:
            vf = vec_field_of(prog, v.args[0])
            if vf is not None:
                return Form('AFFINE', {('len', vf): 1})
            # `self` taken by value (`fn into_ordered_vec(mut self, ..)`): its buffer is still the collection's buffer
            r0 = strip(v.args[0])
            hops = 0
            while r0 is not None and r0.kind == 'call' and r0.callee_name() in ('deref', 'as_slice', 'iter') and r0.args and hops < 4:
                r0 = strip(r0.args[0])
                hops += 1
            if r0 is not None and r0.kind in ('ref', 'load') and r0.fields() and strip(r0.args[0]) is not None and strip(r0.args[0]).kind == 'escaped' \
                    and strip(r0.args[0]).args[0] == 1 and fn.body.arg_count >= 1 and not (fn.body.locals[1]['ty'] or '').startswith('&'):
                return Form('AFFINE', {('len', tuple(r0.fields())): 1})
            return bad('length of a local container')
        if name in ('max', 'min') and len(v.args) == 2:
            fa = sizeform(prog, fn, v.args[0], depth + 1, _seen)
            fb = sizeform(prog, fn, v.args[1], depth + 1, _seen)
            if fa.kind == 'CONST' and fb.kind == 'CONST':
                return Form('CONST', const=max(fa.const, fb.const))
            return bad('max/min of non-constants')
        return bad('result of %s' % (v.extra['callee'].get('path') or 'an indirect call'))
    if k == 'param':
        return bad('caller-supplied value %s' % fn.body.local_name(v.args[0]))
    return bad(k)


def counter_step(a, phi):
    """a == phi + const (possibly via AddWithOverflow .0)"""
    a = strip(a)
    if a.kind == 'load' and a.fields() == ('0',):
        a = strip(a.args[0])
    if a.kind == 'bin' and a.args[0].startswith('Add'):
        x, y = strip(a.args[1]), strip(a.args[2])
        if (x is phi and y.kind == 'const') or (y is phi and x.kind == 'const'):
            return True
    return False


def run(ctx):
    prog = ctx.prog
    roots = [f for f in prog.fns.values() if f.trait_method() == 'into_ordered_vec']
    # the two implementations are anchors of their own (a small, named set is not subject to the consolidation allowance)
    for what, have in (('tree implementation of into_ordered_vec', any(f.self_adt in prog.tree_adts or f.self_adt not in prog.list_adts for f in roots)),
                       ('list implementation of into_ordered_vec', any(f.self_adt in prog.list_adts for f in roots))):
        if not have:
            ctx.anchor_missing(RULE, what, PROPS, 0, 1)
    n = 0
    for root in roots:
        fns = [f for f in prog.closure(root)]
        # the pool growth path is reachable only through insert, not from the export; restrict to functions
        # reachable from the export entry
        for fn in fns:
            b = fn.body
            # which allocation flows into the result of the export?
            returned_locals = set()
            for rv in b.ret_val.values():
                for x in walk(rv):
                    if x.kind == 'escaped':
                        returned_locals.add(x.args[0])
            for c in b.calls:
                name = c.callee_name()
                if prog.classify(c) != 'std':
                    continue
                if name in ('with_capacity', 'from_elem', 'with_capacity_in') or (name in ('reserve', 'reserve_exact', 'resize') and len(c.args) >= 2):
                    n += 1
                    size = c.args[0] if name.startswith('with_capacity') else c.args[1]
                    if name == 'from_elem':
                        size = c.args[1]
                    f = sizeform(prog, fn, size)
                    line = span_line(c, fn.line)
                    # does this allocation become the returned vector?
                    is_result = False
                    dest = [l for l, defs in b.local_defs.items() if any(d is c for d in defs)]
                    if any(l in returned_locals for l in dest) or any(strip(rv) is c for rv in b.ret_val.values()):
                        is_result = fn.body.locals[0]['ty'].startswith('std::vec::Vec') and (fn is root or any(t is fn for _, t in prog.callees(root)) or True)
                    sig = '%s%s' % (name, '(result)' if is_result else '')
                    det = {'size': repr(f), 'size_expr': show(strip(size), 5), 'is_result_vector': is_result}
                    if f.kind == 'BAD':
                        ctx.add(RULE, fn, sig, 'violation', 'allocation size on the export path is not affine in the entry count: %s' % f.why, PROPS + (['C10'] if 'shift' in f.why else []), line, det)
                    elif is_result and f.kind == 'AFFINE':
                        ok, why = entry_count_form(f)
                        if ok:
                            ctx.add(RULE, fn, sig, 'ok', 'result capacity = %r: a small multiple of the number of slots in use' % f, PROPS, line, det)
                            if any(c < 0 for c in f.terms.values()):
                                accounting_premise(ctx, fn, sig, f, line)
                        else:
                            ctx.add(RULE, fn, sig, 'violation', 'result capacity %r is not proportional to the current entry count: %s' % (f, why), PROPS, line, det)
                    elif is_result and f.kind == 'COUNTER':
                        ctx.add(RULE, fn, sig, 'violation', 'result capacity is derived from a loop counter, not from the entry count', PROPS, line, det)
                    elif f.kind == 'CONST' and f.const > (1 << 20):
                        ctx.add(RULE, fn, sig, 'violation', 'constant allocation of %d elements' % f.const, PROPS, line, det)
                    else:
                        ctx.add(RULE, fn, sig, 'ok', 'allocation size is %r' % f, PROPS, line, det)
                elif name == 'collect':
                    n += 1
                    line = span_line(c, fn.line)
                    # exact-size collect: source iterator chain starts at a Vec/slice iter of a self field
                    src = c.args[0] if c.args else None
                    chain = []
                    okc = False
                    while src is not None and src.kind == 'call' and len(chain) < 8:
                        chain.append(src.callee_name())
                        if src.callee_name() in ('iter', 'into_iter', 'iter_mut', 'drain'):
                            okc = vec_field_of(prog, src.args[0]) is not None or True
                            break
                        if src.callee_name() not in ('map', 'copied', 'cloned', 'rev', 'enumerate', 'filter', 'filter_map', 'take', 'skip'):
                            break
                        src = src.args[0] if src.args else None
                    if okc:
                        ctx.add(RULE, fn, 'collect', 'ok', 'collect over an exact-size (or shrinking) iterator of the buffer: at most len elements', PROPS, line, {'chain': chain})
                    else:
                        ctx.add(RULE, fn, 'collect', 'violation', 'collect over an iterator whose length the rule cannot bound by the entry count (%s)' % chain, PROPS, line, {'chain': chain})
    ctx.stat(RULE, allocation_sites=n)
    if n < 3:
        ctx.anchor_missing(RULE, 'allocation sites on the export path', PROPS, n, 3)


LEAK_KINDS = ('grow-range', 'pool-mutation', 'grow-when-empty', 'release-once', 'clear-returns-all')


def accounting_premise(ctx, fn, sig, f, line):
    """`len(arena) - len(free list)` is the number of slots in use only if every slot of the arena that is not in the tree is on
    the free list: growth puts every new slot there, nothing but the allocator takes one off, every slot cut from the tree is
    released.  Those are POOL / DROP clauses of the same family (they ran before this rule); if one of them fails, the term
    over-counts (never-used or leaked slots) and the capacity is no longer proportional to the entry count."""
    fam = fn.family
    broken = [i for i in ctx.instances if i.verdict == 'violation' and i.rule in ('POOL', 'DROP')
              and i.key.split('|')[1].startswith(fam + '::')
              and (i.rule == 'DROP' or any(i.key.split('|')[2].startswith(k) for k in LEAK_KINDS))]
    if broken:
        ctx.add(RULE, fn, sig + ':accounting', 'violation',
                'the result capacity %r counts entries only if every slot of the arena that is not in use is on the free list; that premise is not '
                'established for this pool: %s' % (f, '; '.join('%s (%s)' % (i.key, i.msg[:120]) for i in broken[:3])), PROPS, line,
                {'broken_premises': [i.key for i in broken]})
    else:
        ctx.add(RULE, fn, sig + ':accounting', 'ok', 'the pool of this family keeps every slot in use or on the free list (POOL growth / allocation / release clauses and DROP hold), so %r is the number of slots in use' % f, PROPS, line)


def entry_count_form(f):
    """a*(len(store.buffer) - len(store.unused)) + b with small a, b; or a*len(buffer) for a plain list"""
    terms = dict(f.terms)
    pos = {a: c for a, c in terms.items() if c > 0}
    neg = {a: c for a, c in terms.items() if c < 0}
    if abs(f.const) > SMALL:
        return False, 'constant part %d' % f.const
    if any(c > 8 for c in pos.values()):
        return False, 'factor larger than 8'
    if any(a[0] == 'entries' for a in pos):
        if neg or len(pos) != 1:
            return False, 'an entry counter mixed with other lengths'
        return True, ''
    arena = [a for a in pos if a[0] == 'len' and a[1] and a[1][-1] == 'buffer' and len(a[1]) > 1]
    if arena:
        # arena length counts every slot ever allocated (the peak); it must be offset by the free list
        a = arena[0]
        free = [x for x in neg if x[0] == 'len' and x[1][:-1] == a[1][:-1] and x[1][-1] != 'buffer']
        if not free or -neg[free[0]] != pos[a]:
            return False, 'the arena length alone is proportional to the peak population, not the current one (free-list length is not subtracted)'
        return True, ''
    if neg:
        return False, 'unexpected negative term'
    return True, ''
