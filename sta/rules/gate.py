"""GATE: stored keys and values of the expiring collections reach user code / the caller only
through the expiry gate (DESIGN section 4).

Tree: a function is an *expiry gate* if every value it returns is EMPTY_REF or an index whose
node passed the liveness test (keep side) with the function's own time parameter, with no
state change afterwards.  Every *exposure* of a stored payload in the key-family tree code
(a stored key handed to Ord::cmp / the comparator closure, a stored value returned or pushed
into the result) must be gated: its node index comes only from gate calls made with the
operation's own time parameter (no state change in between), or the exposure is dominated by
the keep side of a liveness test on that very node.

List: every search of / read from `buffer` is dominated by the purge called with the
operation's own time; the cached minimum `min_exp` is maintained as a lower bound."""
from ssa import strip, show, walk
from origins import LINKS
from engine import span_line
from evalrel import Evaluator
from rules import live as L
from rules.descent import compare_sites

RULE = 'GATE'
TREE_PROPS = ['C20', 'C01', 'C06']
EXPORT_PROPS = ['C07']
LIST_PROPS = ['C20', 'C13', 'C07']
CACHE_PROPS = LIST_PROPS + ['C18']


def ret_cases(b):
    """[(block where the value is final, value)] for every way of returning"""
    out = []
    loop_headers = set(b.cfg.loops().keys())
    for rb in b.cfg.returns:
        rv = b.ret_val.get(rb)
        if rv is None:
            continue
        stack = [(rb, rv)]
        seen = set()
        while stack:
            blk, v = stack.pop()
            # expand merges at this block path by path (also trivial ones: the path matters to the callers)
            while v is not None and v.kind == 'cast':
                v = v.args[0]
            if v.kind == 'phi' and v.extra['block'] != blk:
                pb = v.extra['block']
                if pb not in loop_headers and b.cfg.dominates(pb, blk) and v.id not in seen:
                    # a merge in a dominating, non-loop-header block: the value is final at its predecessors
                    seen.add(v.id)
                    for a, p in zip(v.args, v.extra['preds']):
                        stack.append((p, a))
                    continue
                v = strip(v)
            if v.kind == 'phi' and v.extra['block'] == blk and v.id not in seen:
                seen.add(v.id)
                for a, p in zip(v.args, v.extra['preds']):
                    stack.append((p, a))
            else:
                out.append((blk, strip(v)))
    # a value that reaches the return through a plain merge block (several predecessors, not a loop header) is
    # judged on each incoming path separately
    final = []
    work = list(out)
    seen2 = set()
    while work:
        blk, v = work.pop()
        preds = [p for p in b.cfg.pred[blk] if p in b.cfg.reach]
        if len(preds) > 1 and blk not in loop_headers and (blk, v.id) not in seen2 and not (v.point and v.point[0] == blk and v.kind != 'phi'):
            seen2.add((blk, v.id))
            for p in preds:
                work.append((p, v))
        else:
            final.append((blk, v))
    return final


def known_empty(prog, b, v, block):
    """is v == EMPTY_REF established on every path into `block`?"""
    v = strip(v)
    if prog.is_empty_ref(v):
        return True
    for s, d in b.switch_discr.items():
        d = strip(d)
        if d.kind != 'bin' or d.args[0] not in ('Eq', 'Ne'):
            continue
        x, y = strip(d.args[1]), strip(d.args[2])
        if not ((x is v and prog.is_empty_ref(y)) or (y is v and prog.is_empty_ref(x))):
            continue
        t = b.mir['blocks'][s]['term']
        for succ in b.cfg.succ[s]:
            truth = edge_truth(t, succ)
            if truth is None:
                continue
            equal = truth if d.args[0] == 'Eq' else not truth
            if equal and b.cfg.pred[succ] == [s] and b.cfg.dominates(succ, block):
                return True
    return False


def edge_truth(t, succ):
    tv = None
    for val, tb in t['targets']:
        if tb == succ and t['otherwise'] != succ:
            tv = val
    if tv is None and t['otherwise'] == succ:
        listed = [val for val, _ in t['targets']]
        if listed == [0]:
            tv = 1
        elif listed == [1]:
            tv = 0
    return None if tv is None else bool(tv)


def liveness_keeps(prog, fn):
    """[(subject idx Val, accessor call Val or None, keep successor block, switch block, time Val)] for every
    liveness branch of fn whose one side is exactly the family's live set"""
    key = ('keeps', fn.path, id(fn.info.get('mir')))      # a spliced variant of a function (SEGFLOW, UNCHECKED) has its own MIR
    if key in prog._summ_cache:
        return prog._summ_cache[key]
    b = fn.body
    preds = L.pred_summaries(prog)
    sites = L.live_sites(prog, fn)
    pred_calls, pred_info = {}, {}
    for c in b.calls:
        tgt = prog.resolve(c)
        if tgt is not None and tgt.path in preds:
            p = preds[tgt.path]
            pred_calls[c.id] = p['table']
            pred_info[c.id] = (p, c)
    out = []
    for bb, d in b.switch_discr.items():
        ev0 = Evaluator(prog, sites, '<', pred_calls)
        if not ev0.depends(d):
            continue
        if any(s2 not in b.cfg.can_return for s2 in b.cfg.succ[bb]):
            continue
        subject = None
        fam = None
        tval = None
        for s in sites:
            if L.derives(d, [s['call']]) and not s['cache']:
                subject, fam, tval = s['subject'], s['family'], s['time']
        for cid, (p, c) in pred_info.items():
            if L.derives(d, [c]):
                k = p['subject_param']
                if k is None:
                    subject = ('acc', None, strip(c.args[p['subject_index_param'] - 1]))
                else:
                    a = c.args[k - 1]
                    acc = prog.accessor_call(a)
                    subject = ('acc', a, strip(acc[2])) if acc else L.subject_of(prog, a)
                fam = p['family']
                tp = p['time_param']
                tval = c.args[tp - 1] if tp and tp - 1 < len(c.args) else None
        if subject is None or subject[0] != 'acc':
            continue
        live = L.LIVESET[fam]
        t = b.mir['blocks'][bb]['term']
        succ_by_rel = {}
        ok = True
        for rel in ('<', '=', '>'):
            val = Evaluator(prog, sites, rel, pred_calls).ev(d)
            if val is None:
                ok = False
                break
            iv = int(val) if isinstance(val, bool) else val
            chosen = t['otherwise']
            for tv, tb in t['targets']:
                if tv == iv:
                    chosen = tb
            succ_by_rel[rel] = chosen
        if not ok:
            continue
        keep_succ = {succ_by_rel[r] for r in live}
        drop_succ = {succ_by_rel[r] for r in ('<', '=', '>') if r not in live}
        if len(keep_succ) == 1 and not (keep_succ & drop_succ):
            out.append((subject[2], subject[1], keep_succ.pop(), bb, tval))
    prog._summ_cache[key] = out
    return out


def own_time_param(fn, v):
    """is v (a reference to) a parameter of fn?  returns the parameter index"""
    v = strip(v)
    while v is not None and v.kind in ('ref', 'load') and not v.fields():
        v = strip(v.args[0])
    if v is not None and v.kind == 'param':
        return v.args[0]
    if v is not None and v.kind in ('load', 'ref'):
        # closure capture of the parent's parameter / iterator field: accepted as "own" at this level
        root = strip(v.args[0])
        if root.kind == 'param' and root.args[0] == 1:
            return ('self',) + tuple(v.fields())
    return None


def mutating_calls(prog, fn):
    out = []
    from program import VEC_MUTATORS
    for c in fn.body.calls:
        tgt = prog.resolve(c)
        if tgt is not None:
            if tgt.path in prog.accessors:
                continue
            if L.mutates(prog, tgt):
                out.append(c)
        elif prog.classify(c) == 'std' and c.callee_name() in VEC_MUTATORS and c.args and (c.args[0].ty or '').startswith('&mut'):
            # mutation of a local container (the result vector, the explicit stack) is not collection state
            a0 = strip(c.args[0])
            root = a0
            while root.kind in ('ref', 'load'):
                root = strip(root.args[0])
            if root.kind == 'escaped':
                continue
            out.append(c)
    return out


def mutation_between(prog, fn, def_block, use_block, avoid_header=None, redef_blocks=frozenset()):
    """a state-mutating call that can execute after def_block's end and before use_block"""
    b = fn.body
    cfg = b.cfg
    muts = mutating_calls(prog, fn)
    if not muts:
        return None
    # blocks on paths def_block -> use_block that do not re-enter def_block
    fwd = cfg.reachable_from(def_block)
    can = cfg.can_reach([use_block])
    between = {x for x in fwd if x in can}
    for m in muts:
        mb = m.point[0]
        if mb == def_block:
            continue        # the defining call itself (or earlier in the same block)
        if mb == use_block:
            continue        # at the end of the use block: after the read
        if mb in redef_blocks:
            continue        # this call is itself a gate that redefines the cursor: what was gated before is dead after it
        if mb in between and cfg.paths_avoiding(def_block, mb, {use_block}) and cfg.paths_avoiding(mb, use_block, {def_block} | set(redef_blocks)):
            return m
    return None


def gate_summary(prog, fn):
    """{'time_param': k} if fn is an expiry gate, else None (with reasons)"""
    key = ('gate', fn.path, id(fn.info.get('mir')))
    if key in prog._summ_cache:
        return prog._summ_cache[key]
    res = None
    b = fn.body
    reasons = []
    if not fn.is_closure and b.locals[0]['ty'] == 'u32':
        keeps = liveness_keeps(prog, fn)
        if keeps:
            tparams = set()
            ok = True
            muts = mutating_calls(prog, fn)
            loop_headers = set(b.cfg.loops().keys())

            def direct(blk, v):
                """set of time params if a keep edge on v dominates blk with no state change after it, else None"""
                out = set()
                for (idx, acc, ks, sb, tval) in keeps:
                    if idx is not v:
                        continue
                    tp = own_time_param(fn, tval) if tval is not None else None
                    if not isinstance(tp, int):
                        continue
                    if not (b.cfg.pred[ks] == [sb] and b.cfg.dominates(ks, blk)):
                        continue
                    # no state change between the test and the return
                    dirty = [m for m in muts if b.cfg.dominates(ks, m.point[0])]
                    if dirty:
                        continue
                    out.add(tp)
                return out or None

            def edge_ok(p, blk, v, depth):
                """the edge p -> blk is taken only when v is empty or v passed its liveness test (set of time params / empty set)"""
                for (idx, acc, ks, sb, tval) in keeps:
                    if idx is v and sb == p and ks == blk:
                        tp = own_time_param(fn, tval) if tval is not None else None
                        if isinstance(tp, int):
                            return {tp}
                d = b.switch_discr.get(p)
                if d is not None:
                    d = strip(d)
                    if d.kind == 'bin' and d.args[0] in ('Eq', 'Ne'):
                        x, y = strip(d.args[1]), strip(d.args[2])
                        if (x is v and prog.is_empty_ref(y)) or (y is v and prog.is_empty_ref(x)):
                            tr = edge_truth(b.mir['blocks'][p]['term'], blk)
                            if tr is not None and (tr if d.args[0] == 'Eq' else not tr):
                                return set()
                return block_ok(p, v, depth + 1)

            def block_ok(blk, v, depth=0):
                if known_empty(prog, b, v, blk):
                    return set()
                dr = direct(blk, v)
                if dr is not None:
                    return dr
                if depth > 3 or blk in loop_headers or not b.cfg.pred[blk]:
                    return None
                if any(m.point[0] == blk for m in muts):
                    return None
                acc_t = set()
                for p in b.cfg.pred[blk]:
                    r = edge_ok(p, blk, v, depth)
                    if r is None:
                        return None
                    acc_t |= r
                return acc_t

            for blk, v in ret_cases(b):
                r = block_ok(blk, v)
                good = r is not None
                if good:
                    tparams |= r
                if not good:
                    ok = False
                    reasons.append('returns %s at bb%d without a passed liveness test on it' % (show(v, 3), blk))
            if ok and len(tparams) == 1:
                res = {'time_param': tparams.pop()}
    prog._summ_cache[key] = res
    prog._summ_cache[('gate-reasons', fn.path)] = reasons
    return res


def gated_index(prog, fn, idx, use_block, _seen=None, _redef=None):
    """(ok, why) : does every definition of idx come from a gate call with fn's own time parameter,
    with no state change before use_block?"""
    idx = strip(idx)
    if _seen is None:
        _seen = set()
    if idx.id in _seen:
        return True, ''
    _seen.add(idx.id)
    if idx.kind == 'phi':
        if _redef is None:
            # the blocks in which the cursor is (re)defined by a gate call
            _redef = set()
            stack = [idx]
            seen2 = set()
            while stack:
                x = strip(stack.pop())
                if x is None or x.id in seen2:
                    continue
                seen2.add(x.id)
                if x.kind == 'phi':
                    stack.extend(x.args)
                elif x.kind == 'call' and x.point:
                    _redef.add(x.point[0])
        for a in idx.args:
            ok, why = gated_index(prog, fn, a, use_block, _seen, _redef)
            if not ok:
                return False, why
        return True, ''
    if prog.is_empty_ref(idx):
        return True, ''
    if idx.kind == 'call':
        tgt = prog.resolve(idx)
        g = gate_summary(prog, tgt) if tgt is not None else None
        if g is None:
            return False, 'index comes from %s, which is not an expiry gate' % (tgt.name if tgt else 'a non-crate call')
        tp = g['time_param']
        targ = idx.args[tp - 1] if tp - 1 < len(idx.args) else None
        own = own_time_param(fn, targ) if targ is not None else None
        if own is None:
            return False, 'gate %s is called with %s instead of the operation\'s own time' % (tgt.name, show(targ, 3))
        m = mutation_between(prog, fn, idx.point[0], use_block, redef_blocks=frozenset((_redef or set()) - {idx.point[0]}))
        if m is not None:
            return False, 'state-changing call %s can run between the gate and the exposure' % (m.callee_name())
        return True, ''
    return False, 'index %s is not the result of an expiry gate' % show(idx, 3)


def dominated_by_keep(prog, fn, idx, acc, use_block):
    b = fn.body
    for (kidx, kacc, ks, sb, tval) in liveness_keeps(prog, fn):
        same = (kidx is strip(idx)) or (acc is not None and kacc is acc)
        if not same:
            continue
        if own_time_param(fn, tval) is None:
            continue
        if b.cfg.pred[ks] == [sb] and b.cfg.dominates(ks, use_block):
            muts = [m for m in mutating_calls(prog, fn) if b.cfg.dominates(ks, m.point[0]) and m.point[0] in b.cfg.can_reach([use_block]) and m.point[0] != use_block]
            if not muts:
                return True
    return False


def key_tree_fns(prog):
    """functions of the expiring-key tree (impl blocks of the tree ADT whose payload implements ExpiredKey)"""
    out = []
    exp_adts = set()
    for fn in prog.fns.values():
        if fn.self_adt in prog.tree_adts:
            for c in fn.body.calls:
                if prog.classify(c) == 'callback' and prog.callback_kind(c) == 'expiration':
                    exp_adts.add(fn.self_adt)
        if fn.self_adt in prog.node_adts:
            for c in fn.body.calls:
                if prog.classify(c) == 'callback' and prog.callback_kind(c) == 'expiration':
                    exp_adts.add(fn.self_adt)
    fam = {a.split('::')[0] for a in exp_adts}
    for fn in prog.fns.values():
        if fn.self_adt in prog.tree_adts and fn.family in fam and not fn.is_closure:
            out.append(fn)
    return out, fam


def run(ctx):
    prog = ctx.prog
    fns, fam = key_tree_fns(prog)
    gates = {}
    for fn in fns:
        g = gate_summary(prog, fn)
        if g:
            gates[fn.path] = g
            ctx.add(RULE, fn, 'gate-summary', 'ok', 'expiry gate: returns EMPTY_REF or an index that passed the liveness test with its own time parameter (%s), no state change afterwards' % fn.body.local_name(g['time_param']),
                    TREE_PROPS + EXPORT_PROPS, fn.line, {'time_param': fn.body.local_name(g['time_param'])})
    n_cmp = n_val = 0
    removal_like = set()
    for fn in fns:
        b = fn.body
        is_export = fn.module.endswith('array')
        props = EXPORT_PROPS if is_export else TREE_PROPS
        # attribution: a stored key handed to the caller's comparison is C20's subject (the answers do not depend on it: an
        # expired key is still a correctly placed key); a stored value reaching the caller is what C01 / C06 / C07 are about
        cmp_props = ['C20'] if not is_export else EXPORT_PROPS
        val_props = EXPORT_PROPS if is_export else [p_ for p_ in TREE_PROPS if p_ != 'C20']
        # (i) comparison exposures
        for s in compare_sites(prog, fn):
            n_cmp += 1
            call = s['call']
            line = span_line(call, fn.line)
            ok, why = gated_index(prog, fn, s['idx'], call.point[0])
            if not ok and dominated_by_keep(prog, fn, s['idx'], None, call.point[0]):
                ok = True
            sig = 'compare(%s)' % ('closure' if s['method'] == 'closure' else s['method'])
            if ok:
                ctx.add(RULE, fn, sig, 'ok', 'stored key handed to user comparison code is gated at the operation\'s time', cmp_props, line, {'cursor': show(s['idx'], 3)})
            else:
                ctx.add(RULE, fn, sig, 'violation', 'stored key is handed to user comparison code without passing the expiry gate: ' + why, cmp_props, line, {'cursor': show(s['idx'], 3)})
        # (ii) value exposures: payload reads that reach the function result or a push into a result vector
        sinks = []
        for blk, v in ret_cases(b):
            sinks.append(('return', blk, v))
        for c in b.calls:
            if prog.classify(c) == 'std' and c.callee_name() in ('push', 'insert', 'extend', 'push_back') and len(c.args) >= 2:
                a0 = strip(c.args[0])
                root = a0
                while root.kind in ('ref', 'load'):
                    root = strip(root.args[0])
                if root.kind == 'escaped':
                    for a in c.args[1:]:
                        sinks.append(('push', c.point[0], a))
        seen_sites = set()
        for kind, blk, v in sinks:
            for x in walk(v):
                if x.kind != 'load':
                    continue
                nf = prog.node_field(x)
                if nf is None or not nf[1] or nf[1][0] in LINKS or nf[1][0] == 'color':
                    continue
                idx, fields, acc = nf
                # a frame record of link copies (StackNode) is not a payload
                key = (kind, strip(idx).id, fields)
                if key in seen_sites:
                    continue
                seen_sites.add(key)
                n_val += 1
                use_block = x.point[0] if x.point else blk
                ok, why = gated_index(prog, fn, idx, use_block)
                if not ok and dominated_by_keep(prog, fn, idx, acc, blk):
                    ok = True
                sig = '%s(%s)' % (kind, '.'.join(fields))
                line = span_line(x, fn.line)
                if ok:
                    ctx.add(RULE, fn, sig, 'ok', 'stored value reaches the caller only from a gated node', val_props, line, {'index': show(idx, 3)})
                else:
                    ctx.add(RULE, fn, sig, 'violation', 'stored value reaches the caller from a node that did not pass the expiry gate: ' + why, val_props, line, {'index': show(idx, 3)})
    ctx.stat(RULE, gates=len(gates), compare_exposures=n_cmp, value_exposures=n_val)
    if len(gates) < 3:
        ctx.anchor_missing(RULE, 'expiry gates of the key tree (root/left/right)', TREE_PROPS, len(gates), 3)
    if n_cmp < 5:
        ctx.anchor_missing(RULE, 'comparison exposures in the key tree', TREE_PROPS, n_cmp, 5)
    if n_val < 5:
        ctx.anchor_missing(RULE, 'value exposures in the key tree and export', TREE_PROPS + EXPORT_PROPS, n_val, 5)
    run_list(ctx)
    run_timepass(ctx)
    run_list_export(ctx)
    run_probepass(ctx)


# ---------------------------------------------------------------------------------------------
SEARCHES = ('binary_search_by', 'binary_search_by_key', 'binary_search', 'partition_point')


def purge_fns(prog):
    """functions that purge a list: contain a retain call whose closure is a liveness closure, or (wrappers) call such
    a function with their own time parameter"""
    key = ('purgefns',)
    if key in prog._summ_cache:
        return prog._summ_cache[key]
    out = {}
    for fn in prog.fns.values():
        if fn.is_closure:
            continue
        for c in fn.body.calls:
            if c.callee_name() in ('retain', 'retain_mut'):
                for cl in prog.closures_passed(c):
                    if L.live_sites(prog, cl):
                        out[fn.path] = fn
    changed = True
    while changed:
        changed = False
        for fn in prog.fns.values():
            if fn.is_closure or fn.path in out or fn.trait_item:
                continue
            for c in fn.body.calls:
                t = prog.resolve(c)
                if t is not None and t.path in out and any(isinstance(own_time_param(fn, a), int) for a in c.args[1:]):
                    out[fn.path] = fn
                    changed = True
    prog._summ_cache[key] = out
    return out


def run_list(ctx):
    prog = ctx.prog
    purges = purge_fns(prog)
    if not purges:
        ctx.anchor_missing(RULE, 'list purge (retain with a liveness closure)', LIST_PROPS, 0, 1)
        return
    list_adts = {f.self_adt for f in purges.values()}
    n_reads = 0
    for fn in prog.fns.values():
        if fn.self_adt not in list_adts or fn.is_closure or fn.path in purges:
            continue
        b = fn.body
        # reads of the buffer: searches and iterations
        reads = []
        for c in b.calls:
            nm = c.callee_name()
            # (the length alone shows no stored key or value to anybody: `len()` / `is_empty()` of the physical buffer are not exposures)
            if nm in SEARCHES or nm in ('iter', 'into_iter', 'get_unchecked', 'get', 'first', 'last', 'index', 'first_mut', 'last_mut', 'get_mut', 'iter_mut', 'as_slice'):
                base = strip(c.args[0]) if c.args else None
                # look through deref
                seen = 0
                while base is not None and base.kind == 'call' and base.callee_name() in ('deref', 'deref_mut', 'as_slice') and seen < 4:
                    base = strip(base.args[0])
                    seen += 1
                if base is not None and prog.self_field(base) == ('buffer',):
                    if nm in ('len', 'is_empty') and fn.trait_method() == 'is_empty':
                        continue   # emptiness is "a live entry exists => not empty": reading without purge is allowed
                    if nm in ('get_unchecked', 'get'):
                        continue   # position reads follow a search in the same function (UNCHECKED rule)
                    reads.append(c)
        for c in reads:
            n_reads += 1
            line = span_line(c, fn.line)
            sig = 'read(%s)' % c.callee_name()
            dom = None
            for p in b.calls:
                tgt = prog.resolve(p)
                if tgt is None or tgt.path not in purges:
                    continue
                if b.cfg.dominates(p.point[0], c.point[0]) and p.point[0] != c.point[0]:
                    dom = p
            if dom is None:
                ctx.add(RULE, fn, sig, 'violation', 'buffer is searched / read without a dominating purge of expired entries', LIST_PROPS, line)
                continue
            targ = [a for a in dom.args[1:]]
            own = any(isinstance(own_time_param(fn, a), int) for a in targ)
            if not own:
                ctx.add(RULE, fn, sig, 'violation', 'purge is not called with the operation\'s own time', LIST_PROPS, line)
                continue
            # no insertion into the buffer between purge and read
            bad = None
            for m in b.calls:
                if m.callee_name() in ('insert', 'push', 'extend') and m.args and prog.self_field(strip(m.args[0])) == ('buffer',):
                    if b.cfg.dominates(dom.point[0], m.point[0]) and m.point[0] in b.cfg.can_reach([c.point[0]]) and m.point[0] != c.point[0]:
                        bad = m
            if bad is not None:
                ctx.add(RULE, fn, sig, 'violation', 'an entry is inserted between the purge and the search', LIST_PROPS, line)
            else:
                ctx.add(RULE, fn, sig, 'ok', 'search / read is dominated by the purge at the operation\'s time', LIST_PROPS, line)
    ctx.stat(RULE + '-list', reads=n_reads, purges=len(purges))
    if n_reads < 5:
        ctx.anchor_missing(RULE, 'purged searches of the expiring list', LIST_PROPS, n_reads, 5)
    check_min_exp(ctx, purges, list_adts)


def check_min_exp(ctx, purges, list_adts):
    """lower-bound invariant of the cached minimum expiration"""
    prog = ctx.prog
    caches = {f for (adt, f) in L.cache_fields(prog) if adt in list_adts}
    if not caches:
        ctx.anchor_missing(RULE, 'cached minimum expiration field of the list', LIST_PROPS, 0, 1)
        return
    n = 0
    for fn in prog.fns.values():
        if fn.self_adt not in list_adts or fn.is_closure:
            continue
        b = fn.body
        # (1) every insertion into buffer is dominated by min_exp := min(min_exp, expiration(new key))
        for m in b.calls:
            if m.callee_name() in ('insert', 'push') and m.args and prog.self_field(strip(m.args[0])) == ('buffer',):
                n += 1
                line = span_line(m, fn.line)
                good = False
                why_bad = None
                for st in b.stores:
                    root = strip(st.root)
                    if not (root.kind == 'param' and root.args[0] == 1 and len(st.fields()) == 1 and st.fields()[0] in caches):
                        continue
                    v = strip(st.value)
                    if v.kind == 'call' and v.callee_name() == 'min' and len(v.args) == 2:
                        has_old = any(L.cache_read(prog, fn, a) is not None for a in v.args)
                        has_new = any(L.expiration_call(prog, a) is not None for a in v.args)
                        if has_old and has_new and b.cfg.dominates(st.point[0], m.point[0]):
                            # nothing may overwrite the cache between the lowering and the insertion: a purge in between
                            # recomputes it from a buffer that does not yet contain the new entry
                            clobber = None
                            for p2 in b.calls:
                                t2 = prog.resolve(p2)
                                if t2 is not None and t2.path in purges and st.point < p2.point < m.point and p2.point[0] in b.cfg.reachable_from(st.point[0]):
                                    clobber = p2
                            for st2 in b.stores:
                                r2 = strip(st2.root)
                                if st2 is not st and r2.kind == 'param' and r2.args[0] == 1 and st2.fields() == st.fields() and st.point < st2.point < m.point:
                                    clobber = st2
                            if clobber is None:
                                good = True
                            else:
                                why_bad = 'the cached minimum is lowered, but then recomputed (purge / overwrite) before the entry is in the buffer'
                if good:
                    ctx.add(RULE, fn, 'min_exp-on-insert', 'ok', 'cached minimum is lowered to the new key\'s expiration before the entry is inserted', LIST_PROPS, line)
                else:
                    ctx.add(RULE, fn, 'min_exp-on-insert', 'violation', (why_bad or 'an entry is inserted without first lowering the cached minimum expiration to its expiration') + ' (a later purge may then be skipped while the entry is expired)', LIST_PROPS, line)
        # (3) who writes the cache
        for st in b.stores:
            root = strip(st.root)
            if root.kind == 'param' and root.args[0] == 1 and len(st.fields()) == 1 and st.fields()[0] in caches:
                v = strip(st.value)
                n += 1
                line = st.span[1] if st.span else fn.line
                if v.kind == 'call' and v.callee_name() == 'min' and any(L.cache_read(prog, fn, a) is not None for a in v.args):
                    ctx.add(RULE, fn, 'min_exp-write(min)', 'ok', 'cache only lowered (min with its old value)', CACHE_PROPS, line)
                elif fn.path in purges:
                    # (2) after retain: assigned the minimum collected over the kept entries
                    ok, why = check_purge_min(prog, fn, st)
                    ctx.add(RULE, fn, 'min_exp-write(after-purge)', 'ok' if ok else 'violation',
                            'cache set to the minimum over the kept entries after the complete retain' if ok else 'after the purge the cache is not the minimum over the kept entries: ' + why, CACHE_PROPS, line)
                elif v.kind == 'call' and v.callee_name() == 'max_expiration' and fn.trait_method() == 'clear':
                    ctx.add(RULE, fn, 'min_exp-write(reset)', 'ok', 'cache reset to the maximum together with clearing the buffer', LIST_PROPS, line)
                else:
                    ctx.add(RULE, fn, 'min_exp-write(other)', 'violation', 'cached minimum expiration is assigned %s: it may rise above a stored expiration' % show(v, 3), CACHE_PROPS, line)
    ctx.stat(RULE + '-minexp', obligations=n)
    if n < 3:
        ctx.anchor_missing(RULE, 'min_exp invariant obligations', LIST_PROPS, n, 3)


def check_purge_min(prog, fn, st, _val=None):
    b = fn.body
    v = strip(st.value) if _val is None else strip(_val)
    if v.kind == 'call' and prog.resolve(v) is not None and prog.resolve(v).path in purge_fns(prog):
        # the minimum is returned by the purge helper: judge the helper's result
        p = prog.resolve(v)
        res = [check_purge_min(prog, p, None, rv) for rv in p.body.ret_val.values()]
        bad = [r for r in res if not r[0]]
        return (False, bad[0][1]) if bad else (True, '')
    if v.kind != 'escaped':
        return False, 'assigned value is not the accumulator captured by the retain closure'
    local = v.args[0]
    defs = b.local_defs.get(local, [])
    inits = [d for d in defs if d.kind == 'call' and d.callee_name() == 'max_expiration']
    if len(defs) != 1 or len(inits) != 1:
        return False, 'accumulator does not start at max_expiration()'
    # the closure must lower it with min(acc, exp) on the keep path and nowhere else
    retain = [c for c in b.calls if c.callee_name() in ('retain', 'retain_mut')]
    use_block = st.point[0] if st is not None else (v.point[0] if v.point else b.cfg.returns[0])
    if not retain or not b.cfg.dominates(retain[0].point[0], use_block):
        return False, 'assignment is not after the retain'
    for cl in prog.closures_passed(retain[0]):
        cb = cl.body
        sites = L.live_sites(prog, cl)
        if not sites:
            return False, 'retain closure has no liveness test'
        upd = [s for s in cb.stores]
        if len(upd) != 1:
            return False, 'closure writes its captures %d times' % len(upd)
        u = upd[0]
        uv = strip(u.value)
        if not (uv.kind == 'call' and uv.callee_name() == 'min' and any(L.expiration_call(prog, a) is not None for a in uv.args)):
            return False, 'accumulator is not lowered with min(acc, expiration)'
        # executed exactly on the keep side
        from evalrel import region
        for rel in ('<', '=', '>'):
            ev = Evaluator(prog, sites, rel)
            blocks, edges, und = region(cb, ev, 0, None, set())
            executed = u.point[0] in blocks
            live = rel in L.LIVESET[sites[0]['family']]
            if executed != live:
                return False, 'accumulator update %s under expiration%stime' % ('runs' if executed else 'does not run', rel)
    return True, ''


# ---- the operation's own time reaches whatever it delegates to ------------------------------------------------------------------
def run_timepass(ctx):
    """A public operation of an expiring collection that takes the caller's time hands exactly that value on: every argument of
    the time type that it passes to a function of the crate is its own time parameter.  (The gates, the purge and the export
    are held to the time THEY are given; this clause ties that time to the caller's.)"""
    prog = ctx.prog
    n = 0
    for fn in prog.fns.values():
        if fn.is_closure or not fn.trait_item or fn.family not in ('key', 'seg') or not fn.info.get('mir'):
            continue
        b = fn.body
        tparams = [i for i in range(1, b.arg_count + 1) if (b.locals[i]['ty'] or '').strip() == 'E']
        if len(tparams) != 1:
            continue
        tp = tparams[0]
        if fn.family == 'seg':
            props = ['C03', 'C16']
        elif fn.self_adt in prog.list_adts:
            props = ['C13', 'C07'] if fn.trait_method() == 'into_ordered_vec' else ['C13']
        else:
            props = ['C07'] if fn.trait_method() == 'into_ordered_vec' else {'get_value': ['C06'], 'insert': ['C01', 'C06']}.get(fn.trait_method(), ['C01'])
        bad = None
        seen_call = False
        for c in b.calls:
            tgt = prog.resolve(c)
            if tgt is None or tgt.is_closure:
                continue
            for a in c.args:
                if (a.ty or '').strip() != 'E':
                    continue
                seen_call = True
                sa = strip(a)
                if not (sa is not None and sa.kind == 'param' and sa.args[0] == tp):
                    bad = (c, sa)
        if not seen_call:
            continue
        n += 1
        if bad:
            c, sa = bad
            ctx.add(RULE, fn, 'time-passed-on', 'violation', '%s hands %s to %s where its own time parameter `%s` belongs: what that callee filters, purges or scans is decided for another moment than the caller asked about' % (
                fn.trait_method(), show(sa, 3), prog.resolve(c).name, b.local_name(tp)), props, span_line(c, fn.line))
        else:
            ctx.add(RULE, fn, 'time-passed-on', 'ok', 'every time-typed argument handed to the crate\'s functions is the operation\'s own `%s`' % b.local_name(tp), props, fn.line)
    ctx.stat(RULE, time_passing_operations=n)


# ---- the list's export is its buffer, front to back, entry by entry -----------------------------------------------------------------
def run_list_export(ctx):
    prog = ctx.prog
    for fn in prog.fns.values():
        if fn.is_closure or fn.trait_method() != 'into_ordered_vec' or fn.self_adt not in prog.list_adts:
            continue
        b = fn.body
        problems = []
        colls = [c for c in b.calls if c.callee_name() == 'collect' and prog.resolve(c) is None]
        rets = [strip(rv) for rv in b.ret_val.values()]
        chain_ok = False
        for c in colls:
            if not any(r is c for r in rets):
                continue
            src = strip(c.args[0]) if c.args else None
            steps = []
            while src is not None and src.kind == 'call' and len(steps) < 8:
                nm = src.callee_name()
                steps.append(nm)
                if nm in ('iter', 'into_iter', 'drain'):
                    base = strip(src.args[0]) if src.args else None
                    seen = 0
                    while base is not None and base.kind == 'call' and base.callee_name() in ('deref', 'deref_mut', 'as_slice') and seen < 4:
                        base = strip(base.args[0])
                        seen += 1
                    if base is not None and (prog.self_field(base) == ('buffer',) or (base.kind in ('ref', 'load') and base.fields()[-1:] == ('buffer',) and strip(base.args[0]) is not None and strip(base.args[0]).kind in ('param', 'escaped'))):
                        chain_ok = True          # (the export consumes `self`: the buffer is a field of the parameter itself)
                    break
                if nm not in ('map', 'copied', 'cloned'):
                    problems.append('the export runs its buffer through `%s`: entries are dropped, reordered or repeated' % nm)
                    break
                src = strip(src.args[0]) if src.args else None
        if not colls or not any(any(r is c for r in rets) for c in colls):
            # another construction of the result (a loop of pushes, `to_vec`, ..): not read by this clause
            ctx.add(RULE, fn, 'list-export-order', 'info', 'the list export is not a collect over the buffer: order and completeness are not decided by this clause', LIST_PROPS, fn.line, nontrivial=False)
            continue
        if problems or not chain_ok:
            ctx.add(RULE, fn, 'list-export-order', 'violation', '; '.join(problems) or 'the exported vector is not collected from `buffer.iter()`', ['C07', 'C13'], fn.line)
        else:
            ctx.add(RULE, fn, 'list-export-order', 'ok', 'the export collects the purged buffer front to back, entry by entry', ['C07', 'C13'], fn.line)


# ---- the probe a searching operation is given is the probe it searches for -------------------------------------------------------
def run_probepass(ctx):
    """A public operation with a search role hands its own key parameter to the search it delegates to: every argument of the key
    parameter's type that it passes to a method of its own collection is that parameter."""
    prog = ctx.prog
    from rules.descent import ROLE_BY_METHOD, PROPS as TREE_PROPS2
    for fn in prog.fns.values():
        m = fn.trait_method()
        if fn.is_closure or not fn.trait_item or m not in ROLE_BY_METHOD or not fn.info.get('mir'):
            continue
        if fn.self_adt not in prog.tree_adts and fn.self_adt not in prog.list_adts:
            continue
        b = fn.body
        names = {i: b.local_name(i) for i in range(2, b.arg_count + 1)}
        kp = [i for i, nm_ in names.items() if nm_ == 'key']
        if len(kp) != 1:
            continue
        kp = kp[0]
        kty = (b.locals[kp]['ty'] or '').strip()
        if [i for i in names if (b.locals[i]['ty'] or '').strip() == kty] != [kp]:
            continue
        if fn.self_adt in prog.list_adts:
            props = ['C13']
        else:
            props = list(TREE_PROPS2.get((fn.family, m), [])) or ['C10']
        bad = None
        seen_call = False
        for c in b.calls:
            tgt = prog.resolve(c)
            if tgt is None or tgt.is_closure or tgt.self_adt != fn.self_adt or tgt.path in prog.accessors:
                continue
            for a in c.args[1:]:
                if (a.ty or '').strip() != kty:
                    continue
                seen_call = True
                sa = strip(a)
                if not (sa is not None and sa.kind == 'param' and sa.args[0] == kp):
                    bad = (c, sa)
        if not seen_call:
            continue
        if bad:
            c, sa = bad
            ctx.add(RULE, fn, 'probe-passed-on', 'violation', '%s searches for %s instead of its own parameter `key` (in the call of %s): the answer is the answer to another question' % (m, show(sa, 3), prog.resolve(c).name), props, span_line(c, fn.line))
        else:
            ctx.add(RULE, fn, 'probe-passed-on', 'ok', 'the search %s delegates to is given the operation\'s own `key`' % m, props, fn.line)
