"""Extra stages of a check run: rule self-tests on frozen fixtures (quick + thorough), seeded-fault sweep and
compile-fail witnesses (thorough only).

Fixtures: /verif/fixtures/base is a frozen copy of the library (independent of /repo's current state).  For each
rule that serves the property, one designated single-site edit (from sweep/seeds.py) is applied to a scratch copy of
the frozen base and pushed through the same driver and the same rule: the planted instance must be reported
("tiny positive example that must match on every run"), and the unedited base must be silent.  A fixture that is
not detected means the checker is broken: the check fails.

Sweep (thorough, evidence only): every seed of sweep/seeds.py and every kept change under seeded/ is applied to a
scratch copy of /repo's CURRENT tree and re-checked; results never change the exit code (an edit made to /repo by
someone else may make a seed inapplicable or neutralise it)."""
import os, sys, json, importlib, shutil, tempfile, subprocess, time
from concurrent.futures import ProcessPoolExecutor

VERIF = os.path.dirname(os.path.dirname(os.path.abspath(__file__)))
sys.path.insert(0, os.path.join(VERIF, 'sweep'))

# rule -> id of the seed used as its violating fixture
FIXTURE_SEED = {
    'HEAPMASK': 'HM2-place-or-instead-of-and',
    'DESCENT': 'D1-search-value-arms',
    'NULL': 'D6-set-index-after-unguarded',
    'LIVE': 'L2-list-retain-ge',
    'GATE': 'G1-key-search-raw-left',
    'ALLOC': 'D5-export-capacity-shift',
    'IMMOBILE': 'I2-set-insert-moves-root',
    'RESET': 'R2-seg-clear-skips-first',
    'POOL': 'P1-map-delete-no-putback',
    'PROVENANCE': 'D3-export-slot-scan',
    'STALE': 'S1-expire-left-uses-removed',
    'LAYER': 'Y2-set-insert-key-after-link',
    'TWIN': 'T1-set-case5-recolor',
    'LISTSEARCH': 'LS1-maplist-pred-err-no-minus',
    'ENDSENT': 'D7-setlist-steps-bare',
    'NEIGHBOUR': 'NB1-set-after-climb-wrong-side',
    'HANDLE': 'H2-setlist-delete-by-index-swap',
    'SEGFLOW': 'SF1-seg-next-advance-after-remove',
    'UNCHECKED': 'U1-keylist-err-unguarded',
    'PANICSITE': 'E3-setlist-before-unguarded',
    'INORDER': 'IO2-export-swapped-children',
    'ENTITY': 'EN1-map-delete-split-entity',
    'LINKPAIR': 'K1-all-rotate-right-grandchild-parent',
    'NILSTATE': 'K3-set-nil-not-unlinked-on-red-parent',
    'COLOR': 'K2-key-insert-new-black',
    'CLIMB': 'CL1-set-after-climb-node-is-new-parent',
    'PROGRESS': 'PG1-key-expire-root-no-removal',
    'SIZING': 'SZ3-seg-ctor-one-list-short',
    'FRESH': 'FR1-map-insert-new-keeps-left',
    'DROP': 'DR1-key-expire-root-drops-last-node',
    'ROOTTEST': 'RT1-set-delete-repair-root-parent-test',
    'BYPASS': 'BP2-maptree-pred-fast-path-equal',
    'DEFICIT': 'DF1-set-case4-no-handover',
    'REDRED': 'RR1-set-insert-repair-no-climb',
}
# second fixture for LIVE on the seg family
EXTRA_FIXTURES = {'C03': ['L4-seg-expiry-le'], 'C16': ['L4-seg-expiry-le']}


def copy_tree(src, dst):
    os.makedirs(dst)
    for name in os.listdir(src):
        if name in ('.git', 'target', 'FROZEN_FROM'):
            continue
        s, d = os.path.join(src, name), os.path.join(dst, name)
        if os.path.isdir(s):
            shutil.copytree(s, d)
        else:
            shutil.copy2(s, d)


def mark_known(ctx):
    """the development suites (seeded changes, refactors, fixtures, matrix, mutants) look at what a change ADDS: an instance recorded
    as a known finding of the unchanged library (exact key) is not a report about the change"""
    try:
        import json as _json
        kk = {f['key'] for f in _json.load(open(os.path.join(VERIF, 'known_findings.json')))['findings'] if f.get('status') == 'known'}
    except Exception:
        kk = set()
    for i in ctx.instances:
        if i.verdict == 'violation' and i.key in kk:
            i.verdict = 'known-finding'


def run_rules_on(root, rule_modules=None, floor_scale=None):
    from mirlib import extract
    from program import Program
    from engine import Ctx
    import catalog
    prog = Program(*extract(root))
    ctx = Ctx(prog)
    if floor_scale is not None:
        ctx.floor_scale = floor_scale
    for name in catalog.RULE_MODULES:
        importlib.import_module('rules.' + name).run(ctx)
    mark_known(ctx)
    return ctx


def apply_seed(root, sd):
    p = os.path.join(root, sd['file'])
    if not os.path.exists(p):
        return False
    s = open(p).read()
    if s.count(sd['old']) != sd.get('count', 1):
        return False
    open(p, 'w').write(s.replace(sd['old'], sd['new']))
    return True


def one_fixture(args):
    """(rule, seed id, prop) -> result dict; runs in a worker process"""
    rule, sid, prop = args
    import seeds
    sd = [s for s in seeds.SEEDS if s['id'] == sid]
    if not sd:
        return {'rule': rule, 'seed': sid, 'status': 'missing-seed'}
    sd = sd[0]
    tmp = tempfile.mkdtemp(prefix='itree-fx-')
    try:
        root = os.path.join(tmp, 'fx')
        copy_tree(os.path.join(VERIF, 'fixtures', 'base'), root)
        if not apply_seed(root, sd):
            return {'rule': rule, 'seed': sid, 'status': 'fixture-edit-does-not-apply'}
        try:
            ctx = run_rules_on(root)
        except Exception as e:
            return {'rule': rule, 'seed': sid, 'status': 'extraction-failed', 'error': str(e)[-300:]}
        hits = [i for i in ctx.instances if i.verdict == 'violation' and i.rule == rule]
        # the planted instance must be named: the report's file must be the edited file
        named = [i for i in hits if i.file == sd['file'] or i.file == '']
        return {'rule': rule, 'seed': sid, 'status': 'fired' if named else ('fired-elsewhere' if hits else 'SILENT'),
                'reported': [i.key for i in named][:3], 'file': sd['file'], 'note': sd.get('note', '')}
    finally:
        shutil.rmtree(tmp, ignore_errors=True)


def good_fixture(_):
    tmp = tempfile.mkdtemp(prefix='itree-fx-')
    try:
        root = os.path.join(tmp, 'fx')
        copy_tree(os.path.join(VERIF, 'fixtures', 'base'), root)
        ctx = run_rules_on(root, floor_scale=1.0)       # the reference is held to the full floors
        # the frozen base is a copy of the library: a recorded known finding (exact key) is in it too
        try:
            import json as _json
            kk = {f['key'] for f in _json.load(open(os.path.join(VERIF, 'known_findings.json')))['findings'] if f.get('status') == 'known'}
        except Exception:
            kk = set()
        v = [i.key for i in ctx.instances if i.verdict == 'violation' and i.key not in kk]
        import catalog
        short = []
        for pid, spec in sorted(catalog.PROPS.items()):
            for rule, floor in spec.get('floors', {}).items():
                n = len([i for i in ctx.instances if i.rule == rule and pid in i.props and i.verdict != 'info'])
                if n < floor:
                    short.append('%s/%s: %d < %d' % (pid, rule, n, floor))
        return {'status': 'silent' if not v and not short else 'NOISY', 'violations': v[:5] + short[:5], 'instances': len(ctx.instances)}
    finally:
        shutil.rmtree(tmp, ignore_errors=True)


def one_sweep(args):
    kind, ident, repo = args
    import seeds
    tmp = tempfile.mkdtemp(prefix='itree-sw-')
    try:
        root = os.path.join(tmp, 'repo')
        copy_tree(repo, root)
        if kind == 'seed':
            sd = [s for s in seeds.SEEDS if s['id'] == ident][0]
            props = sd['props']
            if not apply_seed(root, sd):
                return {'id': ident, 'props': props, 'status': 'not-applicable'}
        else:
            d = os.path.join(VERIF, 'seeded', ident)
            meta = json.load(open(os.path.join(d, 'meta.json')))
            props = meta['property'] if isinstance(meta['property'], list) else [meta['property']]
            p = subprocess.run('patch -p1 --no-backup-if-mismatch < %s' % os.path.join(d, 'patch.diff'), shell=True, cwd=root, capture_output=True, text=True)
            if p.returncode != 0:
                return {'id': ident, 'props': props, 'status': 'not-applicable'}
        try:
            ctx = run_rules_on(root)
        except Exception as e:
            return {'id': ident, 'props': props, 'status': 'does-not-build'}
        v = [i for i in ctx.instances if i.verdict == 'violation']
        hit = [i for i in v if set(props) & i.props]
        return {'id': ident, 'props': props, 'status': 'detected' if hit else 'missed', 'rules': sorted({i.rule for i in hit}),
                'other_rules': sorted({i.rule for i in v} - {i.rule for i in hit})}
    finally:
        shutil.rmtree(tmp, ignore_errors=True)


def run(prop, tier, repo, spec):
    extra = {}
    failures = []
    t0 = time.time()
    rules = sorted(spec.get('floors', {}).keys())
    jobs = [(r, FIXTURE_SEED[r], prop) for r in rules if r in FIXTURE_SEED]
    for sid in EXTRA_FIXTURES.get(prop, []):
        jobs.append(('LIVE', sid, prop))
    if tier == 'thorough':
        # all fixtures of all rules
        jobs = [(r, s, prop) for r, s in sorted(FIXTURE_SEED.items())] + [('LIVE', 'L4-seg-expiry-le', prop)]
    with ProcessPoolExecutor(max_workers=min(16, len(jobs) + 1)) as ex:
        good = ex.submit(good_fixture, None)
        res = list(ex.map(one_fixture, jobs))
        g = good.result()
    extra['fixtures'] = {'violating': res, 'conforming_base': g, 'frozen_from': open(os.path.join(VERIF, 'fixtures', 'base', 'FROZEN_FROM')).read().strip(),
                         'wall_s': round(time.time() - t0, 2)}
    for r in res:
        if r['status'] != 'fired':
            failures.append('rule self-test failed: fixture %s for rule %s is %s (the rule does not report its planted instance: the checker is broken)' % (r['seed'], r['rule'], r['status']))
    if g['status'] != 'silent':
        failures.append('rule self-test failed: the conforming frozen base is reported as violating: %s' % g['violations'])
    if tier == 'thorough':
        import seeds
        t1 = time.time()
        jobs = [('seed', s['id'], repo) for s in seeds.SEEDS]
        sd = os.path.join(VERIF, 'seeded')
        if os.path.isdir(sd):
            jobs += [('kept', d, repo) for d in sorted(os.listdir(sd)) if os.path.exists(os.path.join(sd, d, 'patch.diff'))]
        with ProcessPoolExecutor(max_workers=16) as ex:
            sw = list(ex.map(one_sweep, jobs))
        mine = [r for r in sw if prop in r['props']]
        extra['seeded_sweep'] = {
            'explanation': 'evidence only: single-site edits applied one at a time to a scratch copy of the current tree and re-checked; never changes the exit code',
            'applied': len([r for r in sw if r['status'] in ('detected', 'missed')]),
            'detected': len([r for r in sw if r['status'] == 'detected']),
            'missed': [r['id'] for r in sw if r['status'] == 'missed'],
            'not_applicable': [r['id'] for r in sw if r['status'] in ('not-applicable', 'does-not-build')],
            'for_this_property': mine,
            'wall_s': round(time.time() - t1, 2),
        }
        extra['mutation_sweep'] = mutation_sweep(prop, repo)
        w = run_witness(repo)
        extra['witness'] = w
        if w.get('status') not in ('ok', 'skipped'):
            failures.append('compile-fail witness failed: %s' % w.get('detail', '')[:400])
    return extra, failures


def mutation_sweep(prop, repo):
    """evidence only: single-token mutants (sweep/mutate.py) of the files the property is anchored in, each pushed through
    the driver and all rules (nothing is executed); how many are reported, and which are not"""
    import mutate
    t0 = time.time()
    files = []
    try:
        for l in open(os.path.join(VERIF, 'properties.jsonl')):
            d = json.loads(l)
            if d['id'] == prop:
                files = [f for f in d.get('anchors', {}).get('files', []) if f.endswith('.rs') and f.startswith('src/')]
    except Exception as e:
        return {'status': 'skipped', 'why': repr(e)[:200]}
    mutate.REPO = repo
    ms = []
    for f in files:
        if os.path.exists(os.path.join(repo, f)):
            ms += mutate.mutants_of(f)
    if not ms:
        return {'status': 'skipped', 'why': 'no anchored source files'}
    total = len(ms)
    CAP = 320
    if total > CAP:
        # deterministic stride sample (the full set is explored by sweep/mutate.py, results in sweep/MUTANTS.md)
        step = total / float(CAP)
        ms = [ms[int(i * step)] for i in range(CAP)]
    with ProcessPoolExecutor(max_workers=16, initializer=_set_repo, initargs=(repo,)) as ex:
        res = list(ex.map(mutate.one, [(m, False) for m in ms], chunksize=4))
    cnt = {}
    for r in res:
        cnt[r['status']] = cnt.get(r['status'], 0) + 1
    mine = [r for r in res if r['status'] == 'reported' and prop in r.get('props', [])]
    silent = [{'id': r['id'], 'old': r['old'].strip()[:80], 'new': r['new'].strip()[:60]} for r in res if r['status'] == 'silent']
    return {'explanation': 'evidence only: every single-token mutant of the anchored files is analysed statically; "reported" = some rule reports a violation (for_this_property = a rule attributed to this property does); the silent ones are triaged in sweep/MUTANTS.md (equivalent for the properties, or mask/layout arithmetic)',
            'files': files, 'mutants_total': total, 'mutants': len(ms), 'outcomes': cnt, 'reported_for_this_property': len(mine), 'silent': silent[:60], 'wall_s': round(time.time() - t0, 1)}


def _set_repo(repo):
    import mutate
    mutate.REPO = repo


def run_witness(repo):
    """cargo +nightly test --doc on the witness crate (path-depends on /repo): compile_fail examples must fail with the
    stated error code, their compiling twins must build (no_run: nothing is executed)"""
    wdir = os.path.join(VERIF, 'witness')
    if not os.path.isdir(wdir):
        return {'status': 'skipped'}
    tmp = tempfile.mkdtemp(prefix='itree-wit-')
    try:
        env = dict(os.environ)
        env['CARGO_NET_OFFLINE'] = 'true'
        env['CARGO_TARGET_DIR'] = os.path.join(tmp, 'target')
        t0 = time.time()
        p = subprocess.run(['cargo', '+nightly', 'test', '--doc', '--offline', '-q'], cwd=wdir, env=env, capture_output=True, text=True)
        out = (p.stdout + p.stderr)[-1500:]
        ok = p.returncode == 0 and 'test result: ok' in out
        n = 0
        for l in out.split('\n'):
            if l.startswith('test result: ok.'):
                n = int(l.split()[3])
        return {'status': 'ok' if ok else 'FAILED', 'doc_tests': n, 'wall_s': round(time.time() - t0, 2), 'detail': '' if ok else out}
    finally:
        shutil.rmtree(tmp, ignore_errors=True)
