"""Control-flow graph utilities over the MIR facts of one function body (normal edges only:
unwind/cleanup edges are ignored; a call without a target diverges)."""


class CFG:
    def __init__(self, mir):
        self.blocks = mir['blocks']
        n = len(self.blocks)
        self.n = n
        self.succ = [[] for _ in range(n)]
        self.pred = [[] for _ in range(n)]
        for i, b in enumerate(self.blocks):
            if b['cleanup']:
                continue
            for s in term_targets(b['term']):
                if s not in self.succ[i]:
                    self.succ[i].append(s)
        for i in range(n):
            for s in self.succ[i]:
                self.pred[s].append(i)
        # reachable from entry
        self.reach = self._reach_from(0)
        self.rpo = self._rpo()
        self.idom = self._dominators()
        self._dom_cache = {}
        self.returns = [i for i in self.reach_list() if self.blocks[i]['term']['k'] == 'return']
        # panic sinks: reachable blocks from which no return is reachable
        self.can_return = self._can_reach_set(self.returns)
        self._pdom = None

    def reach_list(self):
        return [i for i in range(self.n) if i in self.reach]

    def _reach_from(self, start, avoid=()):
        seen = set()
        stack = [start]
        avoid = set(avoid)
        while stack:
            x = stack.pop()
            if x in seen or x in avoid:
                continue
            seen.add(x)
            stack.extend(self.succ[x])
        return seen

    def reachable_from(self, start, avoid=()):
        """blocks reachable from block `start` (inclusive) without entering `avoid`"""
        return self._reach_from(start, avoid)

    def _can_reach_set(self, targets):
        seen = set()
        stack = list(targets)
        while stack:
            x = stack.pop()
            if x in seen:
                continue
            seen.add(x)
            stack.extend(self.pred[x])
        return seen

    def can_reach(self, targets):
        return self._can_reach_set(targets)

    def _rpo(self):
        seen = set()
        order = []

        def dfs(x):
            stack = [(x, iter(self.succ[x]))]
            seen.add(x)
            while stack:
                node, it = stack[-1]
                adv = False
                for s in it:
                    if s not in seen:
                        seen.add(s)
                        stack.append((s, iter(self.succ[s])))
                        adv = True
                        break
                if not adv:
                    order.append(node)
                    stack.pop()
        dfs(0)
        order.reverse()
        return order

    def _dominators(self):
        idx = {b: i for i, b in enumerate(self.rpo)}
        idom = {0: 0}
        changed = True
        while changed:
            changed = False
            for b in self.rpo[1:]:
                ps = [p for p in self.pred[b] if p in idom]
                if not ps:
                    continue
                new = ps[0]
                for p in ps[1:]:
                    a, c = p, new
                    while a != c:
                        while idx[a] > idx[c]:
                            a = idom[a]
                        while idx[c] > idx[a]:
                            c = idom[c]
                    new = a
                if idom.get(b) != new:
                    idom[b] = new
                    changed = True
        return idom

    def dominates(self, a, b):
        """block a dominates block b"""
        if b not in self.idom:
            return False
        while True:
            if a == b:
                return True
            if b == 0:
                return False
            b = self.idom[b]

    def dom_frontier(self):
        df = {b: set() for b in self.rpo}
        for b in self.rpo:
            ps = [p for p in self.pred[b] if p in self.idom]
            if len(ps) >= 2:
                for p in ps:
                    r = p
                    while r != self.idom[b]:
                        df[r].add(b)
                        r = self.idom[r]
        return df

    def back_edges(self):
        return [(a, b) for a in self.rpo for b in self.succ[a] if self.dominates(b, a)]

    def loops(self):
        """natural loops: header -> set of blocks"""
        res = {}
        for a, h in self.back_edges():
            body = res.setdefault(h, {h})
            stack = [a]
            while stack:
                x = stack.pop()
                if x in body:
                    continue
                body.add(x)
                stack.extend(p for p in self.pred[x] if p in self.reach)
        return res

    def postdominates(self, a, b):
        """block a post-dominates b w.r.t. return exits (paths into panic sinks are ignored)"""
        if self._pdom is None:
            self._pdom = self._postdominators()
        return a in self._pdom.get(b, set())

    def _postdominators(self):
        nodes = [b for b in self.rpo if b in self.can_return]
        allset = set(nodes)
        pd = {b: set(allset) for b in nodes}
        for r in self.returns:
            pd[r] = {r}
        changed = True
        while changed:
            changed = False
            for b in reversed(nodes):
                if b in self.returns:
                    continue
                ss = [s for s in self.succ[b] if s in allset]
                if not ss:
                    continue
                new = set(allset)
                for s in ss:
                    new &= pd[s]
                new = new | {b}
                if new != pd[b]:
                    pd[b] = new
                    changed = True
        return pd

    def paths_avoiding(self, src, dst, avoid):
        """is there a path from block src to block dst that does not pass through `avoid` (src, dst excluded from avoid test)?"""
        seen = set()
        stack = list(self.succ[src])
        while stack:
            x = stack.pop()
            if x == dst:
                return True
            if x in seen or x in avoid:
                continue
            seen.add(x)
            stack.extend(self.succ[x])
        return False


def term_targets(t):
    k = t['k']
    if k == 'goto':
        return [t['target']]
    if k == 'switch':
        return [b for _, b in t['targets']] + [t['otherwise']]
    if k == 'call':
        return [t['target']] if t['target'] is not None else []
    if k in ('assert', 'drop'):
        return [t['target']]
    return []
