//! HIR → JSON tree with resolved paths and method callees.

use crate::json::J;
use rustc_hir as hir;
use rustc_hir::def::{DefKind, Res};
use rustc_hir::def_id::LocalDefId;
use rustc_middle::ty::{self, TyCtxt, TypeckResults};

struct Cx<'tcx> {
    tcx: TyCtxt<'tcx>,
    tr: &'tcx TypeckResults<'tcx>,
}

pub fn dump_fn<'tcx>(tcx: TyCtxt<'tcx>, ldid: LocalDefId) -> J {
    let body = tcx.hir_body_owned_by(ldid);
    let tr = tcx.typeck(ldid);
    let cx = Cx { tcx, tr };
    let params: Vec<J> = body.params.iter().map(|p| cx.pat(p.pat)).collect();
    J::Obj(vec![("params", J::Arr(params)), ("body", cx.expr(body.value))])
}

impl<'tcx> Cx<'tcx> {
    fn mark(&self, span: rustc_span::Span) -> (J, J) {
        let sm = self.tcx.sess.source_map();
        let line = sm.lookup_char_pos(span.source_callsite().lo()).line;
        let exp = if span.from_expansion() {
            let d = span.ctxt().outer_expn_data();
            J::s(format!("{:?}", d.kind))
        } else {
            J::Null
        };
        (J::n(line), exp)
    }

    fn node(&self, k: &str, span: rustc_span::Span, mut fields: Vec<(&'static str, J)>) -> J {
        let (line, exp) = self.mark(span);
        let mut v: Vec<(&'static str, J)> = vec![("k", J::s(k)), ("line", line), ("exp", exp)];
        v.append(&mut fields);
        J::Obj(v)
    }

    fn res(&self, res: Res) -> J {
        let tcx = self.tcx;
        match res {
            Res::Local(hid) => {
                let name = tcx.hir_name(hid).to_string();
                J::Obj(vec![("r", J::s("local")), ("name", J::s(name)), ("id", J::s(format!("{}.{}", hid.owner.def_id.local_def_index.as_u32(), hid.local_id.as_u32())))])
            }
            Res::Def(kind, did) => {
                let mut path = tcx.def_path_str(did);
                let mut kind_s = format!("{:?}", kind);
                // constructor → report the variant/struct path
                if let DefKind::Ctor(of, _) = kind {
                    let parent = tcx.parent(did);
                    path = tcx.def_path_str(parent);
                    kind_s = format!("Ctor{:?}", of);
                }
                J::Obj(vec![("r", J::s("def")), ("kind", J::s(kind_s)), ("path", J::s(path))])
            }
            Res::SelfTyParam { .. } | Res::SelfTyAlias { .. } => J::Obj(vec![("r", J::s("selfty"))]),
            Res::SelfCtor(_) => J::Obj(vec![("r", J::s("selfctor"))]),
            Res::PrimTy(p) => J::Obj(vec![("r", J::s("prim")), ("name", J::s(p.name_str()))]),
            other => J::Obj(vec![("r", J::s("other")), ("text", J::s(format!("{:?}", other)))]),
        }
    }

    fn qpath(&self, q: &hir::QPath<'tcx>, hid: hir::HirId) -> J {
        let res = self.tr.qpath_res(q, hid);
        self.res(res)
    }

    fn block(&self, b: &hir::Block<'tcx>) -> J {
        let mut stmts = Vec::new();
        for s in b.stmts {
            match s.kind {
                hir::StmtKind::Let(l) => {
                    stmts.push(self.node(
                        "let",
                        s.span,
                        vec![
                            ("pat", self.pat(l.pat)),
                            ("init", J::opt(l.init, |e| self.expr(e))),
                            ("els", J::opt(l.els, |b| self.block(b))),
                        ],
                    ));
                }
                hir::StmtKind::Item(_) => {}
                hir::StmtKind::Expr(e) => stmts.push(self.node("stmt", s.span, vec![("e", self.expr(e)), ("semi", J::Bool(false))])),
                hir::StmtKind::Semi(e) => stmts.push(self.node("stmt", s.span, vec![("e", self.expr(e)), ("semi", J::Bool(true))])),
            }
        }
        let unsafe_ = matches!(b.rules, hir::BlockCheckMode::UnsafeBlock(_));
        self.node(
            "block",
            b.span,
            vec![("stmts", J::Arr(stmts)), ("expr", J::opt(b.expr, |e| self.expr(e))), ("unsafe", J::Bool(unsafe_))],
        )
    }

    fn pat(&self, p: &hir::Pat<'tcx>) -> J {
        match p.kind {
            hir::PatKind::Wild | hir::PatKind::Missing => self.node("pwild", p.span, vec![]),
            hir::PatKind::Binding(mode, hid, ident, sub) => self.node(
                "pbind",
                p.span,
                vec![
                    ("name", J::s(ident.name.to_string())),
                    ("id", J::s(format!("{}.{}", hid.owner.def_id.local_def_index.as_u32(), hid.local_id.as_u32()))),
                    ("mut", J::Bool(mode.1.is_mut())),
                    ("byref", J::Bool(!matches!(mode.0, hir::ByRef::No))),
                    ("sub", J::opt(sub, |s| self.pat(s))),
                ],
            ),
            hir::PatKind::Struct(ref q, fields, _) => {
                let fs: Vec<J> = fields
                    .iter()
                    .map(|f| J::Arr(vec![J::s(f.ident.name.to_string()), self.pat(f.pat)]))
                    .collect();
                self.node("pstruct", p.span, vec![("path", self.qpath(q, p.hir_id)), ("fields", J::Arr(fs))])
            }
            hir::PatKind::TupleStruct(ref q, pats, _) => self.node(
                "pctor",
                p.span,
                vec![("path", self.qpath(q, p.hir_id)), ("subs", J::Arr(pats.iter().map(|x| self.pat(x)).collect()))],
            ),
            hir::PatKind::Or(pats) => self.node("por", p.span, vec![("subs", J::Arr(pats.iter().map(|x| self.pat(x)).collect()))]),
            hir::PatKind::Tuple(pats, _) => self.node("ptuple", p.span, vec![("subs", J::Arr(pats.iter().map(|x| self.pat(x)).collect()))]),
            hir::PatKind::Ref(sub, _, _) | hir::PatKind::Box(sub) | hir::PatKind::Deref(sub) => {
                self.node("pref", p.span, vec![("sub", self.pat(sub))])
            }
            hir::PatKind::Expr(pe) => {
                let inner = match pe.kind {
                    hir::PatExprKind::Lit { lit, negated } => J::Obj(vec![
                        ("k", J::s("lit")),
                        ("text", J::s(format!("{}{:?}", if negated { "-" } else { "" }, lit.node))),
                    ]),
                    hir::PatExprKind::Path(ref q) => J::Obj(vec![("k", J::s("path")), ("res", self.qpath(q, pe.hir_id))]),

                };
                self.node("pexpr", p.span, vec![("e", inner)])
            }
            hir::PatKind::Guard(sub, e) => self.node("pguard", p.span, vec![("sub", self.pat(sub)), ("cond", self.expr(e))]),
            _ => self.node("pother", p.span, vec![("text", J::s(format!("{:?}", p.kind)))]),
        }
    }

    fn expr(&self, e: &hir::Expr<'tcx>) -> J {
        let tcx = self.tcx;
        let sp = e.span;
        match e.kind {
            hir::ExprKind::DropTemps(inner) | hir::ExprKind::Use(inner, _) | hir::ExprKind::Type(inner, _) => self.expr(inner),
            hir::ExprKind::Array(es) => self.node("array", sp, vec![("es", J::Arr(es.iter().map(|x| self.expr(x)).collect()))]),
            hir::ExprKind::Tup(es) => self.node("tuple", sp, vec![("es", J::Arr(es.iter().map(|x| self.expr(x)).collect()))]),
            hir::ExprKind::Call(f, args) => self.node(
                "call",
                sp,
                vec![("f", self.expr(f)), ("args", J::Arr(args.iter().map(|x| self.expr(x)).collect()))],
            ),
            hir::ExprKind::MethodCall(seg, recv, args, _) => {
                let callee = match self.tr.type_dependent_def_id(e.hir_id) {
                    Some(did) => {
                        let mut trait_ = J::Null;
                        let mut self_param = false;
                        if let Some(tdid) = tcx.trait_of_assoc(did) {
                            trait_ = J::s(tcx.def_path_str(tdid));
                            let gargs = self.tr.node_args(e.hir_id);
                            if let Some(t) = gargs.types().next() {
                                self_param = crate::ty_is_param(t);
                            }
                        }
                        J::Obj(vec![
                            ("path", J::s(tcx.def_path_str(did))),
                            ("krate", J::s(tcx.crate_name(did.krate).to_string())),
                            ("trait", trait_),
                            ("self_param", J::Bool(self_param)),
                        ])
                    }
                    None => J::Null,
                };
                self.node(
                    "mcall",
                    sp,
                    vec![
                        ("name", J::s(seg.ident.name.to_string())),
                        ("callee", callee),
                        ("recv", self.expr(recv)),
                        ("args", J::Arr(args.iter().map(|x| self.expr(x)).collect())),
                    ],
                )
            }
            hir::ExprKind::Binary(op, a, b) => {
                // overloaded operator?
                let overloaded = self.tr.type_dependent_def_id(e.hir_id).map(|d| tcx.def_path_str(d));
                self.node(
                    "binary",
                    sp,
                    vec![
                        ("op", J::s(op.node.as_str())),
                        ("a", self.expr(a)),
                        ("b", self.expr(b)),
                        ("overloaded", J::opt(overloaded, J::s)),
                    ],
                )
            }
            hir::ExprKind::Unary(op, a) => self.node("unary", sp, vec![("op", J::s(op.as_str())), ("a", self.expr(a))]),
            hir::ExprKind::Lit(lit) => self.node("lit", sp, vec![("text", J::s(format!("{:?}", lit.node)))]),
            hir::ExprKind::Cast(inner, _) => {
                let ty = self.tr.expr_ty(e);
                self.node("cast", sp, vec![("e", self.expr(inner)), ("ty", J::s(ty.to_string()))])
            }
            hir::ExprKind::Let(l) => self.node("letexpr", sp, vec![("pat", self.pat(l.pat)), ("init", self.expr(l.init))]),
            hir::ExprKind::If(c, t, els) => self.node(
                "if",
                sp,
                vec![("cond", self.expr(c)), ("then", self.expr(t)), ("els", J::opt(els, |x| self.expr(x)))],
            ),
            hir::ExprKind::Loop(b, _, src, _) => self.node("loop", sp, vec![("body", self.block(b)), ("src", J::s(format!("{:?}", src)))]),
            hir::ExprKind::Match(scrut, arms, src) => {
                let arms_j: Vec<J> = arms
                    .iter()
                    .map(|a| {
                        J::Obj(vec![
                            ("pat", self.pat(a.pat)),
                            ("guard", J::opt(a.guard, |g| self.expr(g))),
                            ("body", self.expr(a.body)),
                        ])
                    })
                    .collect();
                self.node("match", sp, vec![("scrut", self.expr(scrut)), ("arms", J::Arr(arms_j)), ("src", J::s(format!("{:?}", src)))])
            }
            hir::ExprKind::Closure(c) => self.node("closure", sp, vec![("path", J::s(tcx.def_path_str(c.def_id.to_def_id())))]),
            hir::ExprKind::Block(b, _) => self.block(b),
            hir::ExprKind::Assign(l, r, _) => self.node("assign", sp, vec![("lhs", self.expr(l)), ("rhs", self.expr(r))]),
            hir::ExprKind::AssignOp(op, l, r) => self.node(
                "assignop",
                sp,
                vec![("op", J::s(op.node.as_str())), ("lhs", self.expr(l)), ("rhs", self.expr(r))],
            ),
            hir::ExprKind::Field(inner, ident) => {
                // owner ADT of the field
                let bty = self.tr.expr_ty_adjusted(inner);
                let mut t = bty;
                while let ty::Ref(_, i, _) = t.kind() {
                    t = *i;
                }
                let owner = match t.kind() {
                    ty::Adt(adt, _) => tcx.def_path_str(adt.did()),
                    _ => t.to_string(),
                };
                self.node("field", sp, vec![("e", self.expr(inner)), ("name", J::s(ident.name.to_string())), ("owner", J::s(owner))])
            }
            hir::ExprKind::Index(a, b, _) => self.node("index", sp, vec![("a", self.expr(a)), ("b", self.expr(b))]),
            hir::ExprKind::Path(ref q) => self.node("path", sp, vec![("res", self.qpath(q, e.hir_id))]),
            hir::ExprKind::AddrOf(_, m, inner) => self.node("ref", sp, vec![("mut", J::Bool(m.is_mut())), ("e", self.expr(inner))]),
            hir::ExprKind::Break(_, v) => self.node("break", sp, vec![("e", J::opt(v, |x| self.expr(x)))]),
            hir::ExprKind::Continue(_) => self.node("continue", sp, vec![]),
            hir::ExprKind::Ret(v) => self.node("ret", sp, vec![("e", J::opt(v, |x| self.expr(x)))]),
            hir::ExprKind::Struct(q, fields, tail) => {
                let fs: Vec<J> = fields
                    .iter()
                    .map(|f| J::Arr(vec![J::s(f.ident.name.to_string()), self.expr(f.expr)]))
                    .collect();
                let base = match tail {
                    hir::StructTailExpr::Base(b) => self.expr(b),
                    _ => J::Null,
                };
                self.node("struct", sp, vec![("path", self.qpath(q, e.hir_id)), ("fields", J::Arr(fs)), ("base", base)])
            }
            hir::ExprKind::Repeat(v, _) => self.node("repeat", sp, vec![("e", self.expr(v))]),
            hir::ExprKind::ConstBlock(_) => self.node("constblock", sp, vec![]),
            _ => self.node("other", sp, vec![("text", J::s(format!("{:?}", e.kind).chars().take(80).collect::<String>()))]),
        }
    }
}
