//! itree-facts: a rustc_private driver that dumps the resolved program (ADTs, constants,
//! MIR with resolved callees, HIR with resolved method calls) of the crate being compiled
//! as one JSON file. Used as RUSTC_WORKSPACE_WRAPPER under `cargo +nightly check`, or
//! directly (`itree-facts rustc <args>`) for the fixtures.
#![feature(rustc_private)]
#![allow(clippy::all)]

extern crate rustc_abi;
extern crate rustc_driver;
extern crate rustc_hir;
extern crate rustc_interface;
extern crate rustc_middle;
extern crate rustc_span;

mod hir_dump;
mod json;
mod mir_dump;

use json::J;
use rustc_driver::{Callbacks, Compilation};
use rustc_hir::def::DefKind;
use rustc_interface::interface::Compiler;
use rustc_middle::ty::{self, TyCtxt};
use rustc_span::Span;

struct Facts;

pub fn span_json(tcx: TyCtxt<'_>, span: Span) -> J {
    // [file, line, col, expansion-mark]
    let sm = tcx.sess.source_map();
    // use the call-site for macro expansions so that line numbers point into the crate
    let root = span.source_callsite();
    let loc = sm.lookup_char_pos(root.lo());
    let file = match &loc.file.name {
        rustc_span::FileName::Real(r) => match r.local_path() {
            Some(p) => p.to_string_lossy().to_string(),
            None => format!("{:?}", loc.file.name),
        },
        other => format!("{:?}", other),
    };
    let exp = if span.from_expansion() {
        // collect the whole expansion chain: innermost first
        let mut names = Vec::new();
        let mut s = span;
        let mut guard = 0;
        while s.from_expansion() && guard < 16 {
            let data = s.ctxt().outer_expn_data();
            names.push(J::s(format!("{:?}", data.kind)));
            s = data.call_site;
            guard += 1;
        }
        J::Arr(names)
    } else {
        J::Null
    };
    J::Arr(vec![J::s(file), J::n(loc.line), J::n(loc.col.0 + 1), exp])
}

pub fn span_lines(tcx: TyCtxt<'_>, span: Span) -> J {
    let sm = tcx.sess.source_map();
    let lo = sm.lookup_char_pos(span.lo());
    let hi = sm.lookup_char_pos(span.hi());
    J::Arr(vec![J::n(lo.line), J::n(hi.line)])
}

fn adts(tcx: TyCtxt<'_>) -> J {
    let mut out = Vec::new();
    for ldid in tcx.hir_crate_items(()).definitions() {
        let did = ldid.to_def_id();
        let kind = tcx.def_kind(did);
        if !matches!(kind, DefKind::Struct | DefKind::Enum | DefKind::Union) {
            continue;
        }
        let adt = tcx.adt_def(did);
        let mut variants = Vec::new();
        for (vidx, v) in adt.variants().iter_enumerated() {
            let discr = if adt.is_enum() {
                J::n(adt.discriminant_for_variant(tcx, vidx).val as i128)
            } else {
                J::Null
            };
            let fields = v
                .fields
                .iter()
                .map(|f| {
                    let fty = tcx.type_of(f.did).instantiate_identity().skip_norm_wip();
                    J::Obj(vec![
                        ("name", J::s(f.name.to_string())),
                        ("ty", J::s(fty.to_string())),
                        ("vis", J::s(format!("{:?}", tcx.visibility(f.did)))),
                    ])
                })
                .collect();
            variants.push(J::Obj(vec![
                ("name", J::s(v.name.to_string())),
                ("discr", discr),
                ("fields", J::Arr(fields)),
            ]));
        }
        out.push(J::Obj(vec![
            ("path", J::s(tcx.def_path_str(did))),
            ("kind", J::s(format!("{:?}", kind))),
            ("vis", J::s(format!("{:?}", tcx.visibility(did)))),
            ("span", span_json(tcx, tcx.def_span(did))),
            ("variants", J::Arr(variants)),
        ]));
    }
    J::Arr(out)
}

fn consts(tcx: TyCtxt<'_>) -> J {
    let mut out = Vec::new();
    for ldid in tcx.hir_crate_items(()).definitions() {
        let did = ldid.to_def_id();
        let kind = tcx.def_kind(did);
        if !matches!(kind, DefKind::Const { .. } | DefKind::AssocConst { .. }) {
            continue;
        }
        // only non-generic constants can be evaluated here
        let generics = tcx.generics_of(did);
        let mut val = J::Null;
        if generics.count() == 0 && generics.parent_count == 0 {
            if let Ok(v) = tcx.const_eval_poly(did) {
                if let Some(s) = v.try_to_scalar_int() {
                    val = J::n(s.to_bits_unchecked() as i128);
                }
            }
        } else if generics.count() == 0 {
            // associated const of a non-generic impl (Heap32::POWER)
            if tcx.generics_of(tcx.parent(did)).count() == 0 {
                if let Ok(v) = tcx.const_eval_poly(did) {
                    if let Some(s) = v.try_to_scalar_int() {
                        val = J::n(s.to_bits_unchecked() as i128);
                    }
                }
            }
        }
        out.push(J::Obj(vec![
            ("path", J::s(tcx.def_path_str(did))),
            ("ty", J::s(tcx.type_of(did).instantiate_identity().skip_norm_wip().to_string())),
            ("value", val),
            ("span", span_json(tcx, tcx.def_span(did))),
        ]));
    }
    J::Arr(out)
}

fn traits(tcx: TyCtxt<'_>) -> J {
    let mut out = Vec::new();
    for ldid in tcx.hir_crate_items(()).definitions() {
        let did = ldid.to_def_id();
        if tcx.def_kind(did) != DefKind::Trait {
            continue;
        }
        let items = tcx
            .associated_items(did)
            .in_definition_order()
            .map(|it| J::s(it.name().to_string()))
            .collect();
        out.push(J::Obj(vec![
            ("path", J::s(tcx.def_path_str(did))),
            ("vis", J::s(format!("{:?}", tcx.visibility(did)))),
            ("items", J::Arr(items)),
        ]));
    }
    J::Arr(out)
}

fn functions(tcx: TyCtxt<'_>) -> J {
    let mut out = Vec::new();
    for ldid in tcx.hir_body_owners() {
        let did = ldid.to_def_id();
        let kind = tcx.def_kind(did);
        if !matches!(kind, DefKind::Fn | DefKind::AssocFn | DefKind::Closure) {
            continue;
        }
        let mut obj: Vec<(&'static str, J)> = Vec::new();
        obj.push(("path", J::s(tcx.def_path_str(did))));
        obj.push(("kind", J::s(format!("{:?}", kind))));
        obj.push(("name", J::s(tcx.opt_item_name(did).map(|s| s.to_string()).unwrap_or_default())));
        // enclosing fn for closures
        if kind == DefKind::Closure {
            let parent = tcx.typeck_root_def_id(did);
            obj.push(("parent", J::s(tcx.def_path_str(parent))));
            obj.push(("vis", J::Null));
        } else {
            obj.push(("parent", J::Null));
            obj.push(("vis", J::s(format!("{:?}", tcx.visibility(did)))));
        }
        // impl / trait container
        let mut impl_of_trait = J::Null;
        let mut self_ty = J::Null;
        let mut trait_item = J::Null;
        if kind == DefKind::AssocFn {
            let container = tcx.parent(did);
            match tcx.def_kind(container) {
                DefKind::Impl { of_trait } => {
                    self_ty = J::s(tcx.type_of(container).instantiate_identity().skip_norm_wip().to_string());
                    if of_trait {
                        let tr = tcx.impl_trait_ref(container).instantiate_identity().skip_norm_wip();
                        impl_of_trait = J::s(tcx.def_path_str(tr.def_id));
                        if let Some(ti) = tcx.associated_item(did).trait_item_def_id() {
                            trait_item = J::s(tcx.def_path_str(ti));
                        }
                    }
                }
                DefKind::Trait => {
                    impl_of_trait = J::s(tcx.def_path_str(container));
                    self_ty = J::s("Self");
                }
                _ => {}
            }
        }
        obj.push(("impl_trait", impl_of_trait));
        obj.push(("trait_item", trait_item));
        obj.push(("self_ty", self_ty));
        obj.push(("span", span_json(tcx, tcx.def_span(did))));
        let body_span = tcx.hir_body_owned_by(ldid).value.span;
        obj.push(("lines", span_lines(tcx, tcx.hir_span_with_body(tcx.local_def_id_to_hir_id(ldid)))));
        let _ = body_span;
        // test code?  (cfg(test) modules are absent in a lib check, but be explicit)
        obj.push(("mir", mir_dump::dump_body(tcx, ldid)));
        obj.push(("hir", hir_dump::dump_fn(tcx, ldid)));
        out.push(J::Obj(obj));
    }
    J::Arr(out)
}

impl Callbacks for Facts {
    fn after_analysis<'tcx>(&mut self, _c: &Compiler, tcx: TyCtxt<'tcx>) -> Compilation {
        let Ok(dir) = std::env::var("ITREE_FACTS_OUT") else {
            return Compilation::Continue;
        };
        let crate_name = tcx.crate_name(rustc_hir::def_id::LOCAL_CRATE).to_string();
        let sess = tcx.sess;
        let root = J::Obj(vec![
            ("crate", J::s(crate_name.clone())),
            ("driver_version", J::n(1)),
            ("pid", J::n(std::process::id())),
            ("debug_assertions", J::Bool(sess.opts.debug_assertions)),
            ("overflow_checks", J::Bool(sess.overflow_checks())),
            ("mir_opt_level", J::n(sess.mir_opt_level())),
            ("is_test", J::Bool(sess.is_test_crate())),
            ("ordering", ordering_discr(tcx)),
            ("adts", adts(tcx)),
            ("consts", consts(tcx)),
            ("traits", traits(tcx)),
            ("fns", functions(tcx)),
        ]);
        let mut s = String::with_capacity(1 << 22);
        root.write(&mut s);
        let path = format!("{}/{}.json", dir, crate_name);
        let tmp = format!("{}.tmp{}", path, std::process::id());
        std::fs::write(&tmp, s).expect("itree-facts: cannot write facts");
        std::fs::rename(&tmp, &path).expect("itree-facts: cannot rename facts");
        Compilation::Continue
    }
}

/// discriminants of core::cmp::Ordering as they appear in SwitchInt (as u128 bit patterns of i8)
fn ordering_discr(tcx: TyCtxt<'_>) -> J {
    let Some(did) = tcx.lang_items().get(rustc_hir::LangItem::OrderingEnum) else {
        return J::Null;
    };
    let adt = tcx.adt_def(did);
    let mut v = Vec::new();
    for (vidx, var) in adt.variants().iter_enumerated() {
        let d = adt.discriminant_for_variant(tcx, vidx);
        v.push(J::Arr(vec![J::s(var.name.to_string()), J::n(d.val as i128)]));
    }
    J::Arr(v)
}

pub fn ty_is_param(t: ty::Ty<'_>) -> bool {
    let mut t = t;
    loop {
        match t.kind() {
            ty::Ref(_, inner, _) => t = *inner,
            ty::Param(_) => return true,
            _ => return false,
        }
    }
}

fn main() {
    let mut args: Vec<String> = std::env::args().collect();
    // wrapper mode: argv[1] is the path of the real rustc
    if args.len() > 1 && (args[1].ends_with("rustc") || args[1] == "rustc") {
        args.remove(1);
    }
    let mut cb = Facts;
    rustc_driver::run_compiler(&args, &mut cb);
}
