//! MIR → JSON.

use crate::json::J;
use crate::{span_json, ty_is_param};
use rustc_hir::def::DefKind;
use rustc_hir::def_id::{DefId, LocalDefId};
use rustc_middle::mir::*;
use rustc_middle::ty::{self, Ty, TyCtxt, TypingEnv};

struct Cx<'a, 'tcx> {
    tcx: TyCtxt<'tcx>,
    body: &'a Body<'tcx>,
    owner: DefId,
}

pub fn dump_body<'tcx>(tcx: TyCtxt<'tcx>, ldid: LocalDefId) -> J {
    let body = tcx.optimized_mir(ldid.to_def_id());
    let cx = Cx { tcx, body, owner: ldid.to_def_id() };
    let mut locals = Vec::new();
    for (l, decl) in body.local_decls.iter_enumerated() {
        locals.push(J::Obj(vec![
            ("i", J::n(l.as_usize())),
            ("ty", J::s(decl.ty.to_string())),
            ("mut", J::Bool(decl.mutability.is_mut())),
            ("span", span_json(tcx, decl.source_info.span)),
        ]));
    }
    let mut dbg = Vec::new();
    for v in &body.var_debug_info {
        let val = match &v.value {
            VarDebugInfoContents::Place(p) => cx.place(p),
            VarDebugInfoContents::Const(c) => cx.constant(c),
        };
        dbg.push(J::Obj(vec![
            ("name", J::s(v.name.to_string())),
            ("value", val),
            ("arg", J::opt(v.argument_index, |a| J::n(a))),
        ]));
    }
    let mut blocks = Vec::new();
    for (_bb, data) in body.basic_blocks.iter_enumerated() {
        let mut stmts = Vec::new();
        for st in &data.statements {
            if let Some(j) = cx.stmt(st) {
                stmts.push(j);
            }
        }
        blocks.push(J::Obj(vec![
            ("cleanup", J::Bool(data.is_cleanup)),
            ("stmts", J::Arr(stmts)),
            ("term", cx.term(data.terminator())),
        ]));
    }
    J::Obj(vec![
        ("arg_count", J::n(body.arg_count)),
        ("locals", J::Arr(locals)),
        ("debug", J::Arr(dbg)),
        ("blocks", J::Arr(blocks)),
    ])
}

impl<'a, 'tcx> Cx<'a, 'tcx> {
    fn place(&self, p: &Place<'tcx>) -> J {
        let tcx = self.tcx;
        let mut proj = Vec::new();
        let mut pty = PlaceTy::from_ty(self.body.local_decls[p.local].ty);
        for elem in p.projection.iter() {
            let j = match elem {
                ProjectionElem::Deref => J::s("deref"),
                ProjectionElem::Field(f, fty) => {
                    // name of the field, if the base is an ADT
                    let (name, owner) = match pty.ty.kind() {
                        ty::Adt(adt, _) => {
                            let v = match pty.variant_index {
                                Some(v) => adt.variant(v),
                                None => adt.non_enum_variant(),
                            };
                            (v.fields[f].name.to_string(), tcx.def_path_str(adt.did()))
                        }
                        ty::Closure(did, _) => (format!("upvar{}", f.as_usize()), tcx.def_path_str(*did)),
                        ty::Tuple(_) => (format!("{}", f.as_usize()), format!("tuple{}", pty.ty)),
                        _ => (format!("{}", f.as_usize()), pty.ty.to_string()),
                    };
                    J::Arr(vec![J::s("field"), J::n(f.as_usize()), J::s(name), J::s(owner), J::s(fty.to_string())])
                }
                ProjectionElem::Index(l) => J::Arr(vec![J::s("index"), J::n(l.as_usize())]),
                ProjectionElem::ConstantIndex { offset, from_end, .. } => {
                    J::Arr(vec![J::s("constindex"), J::n(offset), J::Bool(from_end)])
                }
                ProjectionElem::Subslice { .. } => J::Arr(vec![J::s("subslice")]),
                ProjectionElem::Downcast(name, v) => J::Arr(vec![
                    J::s("downcast"),
                    J::s(name.map(|s| s.to_string()).unwrap_or_default()),
                    J::n(v.as_usize()),
                ]),
                ProjectionElem::OpaqueCast(_) => J::Arr(vec![J::s("opaquecast")]),
                ProjectionElem::UnwrapUnsafeBinder(_) => J::Arr(vec![J::s("unwrapbinder")]),
            };
            proj.push(j);
            pty = pty.projection_ty(tcx, elem);
        }
        J::Obj(vec![("l", J::n(p.local.as_usize())), ("p", J::Arr(proj)), ("ty", J::s(pty.ty.to_string()))])
    }

    fn constant(&self, c: &ConstOperand<'tcx>) -> J {
        let tcx = self.tcx;
        let ty = c.const_.ty();
        let mut val = J::Null;
        let mut def = J::Null;
        let mut fninfo = J::Null;
        let mut promoted = J::Null;
        match ty.kind() {
            ty::FnDef(did, gargs) => {
                fninfo = self.callee(*did, gargs);
            }
            _ => {
                // evaluated scalar value, when there is one
                let env = TypingEnv::post_analysis(tcx, self.owner);
                if let Some(s) = c.const_.try_eval_scalar_int(tcx, env) {
                    val = J::n(s.to_bits_unchecked() as i128);
                }
                if let Const::Unevaluated(u, _) = c.const_ {
                    def = J::s(tcx.def_path_str(u.def));
                    if let Some(p) = u.promoted {
                        promoted = self.promoted_ref(u.def, p);
                    }
                } else if let Const::Ty(_, ct) = c.const_ {
                    if let ty::ConstKind::Unevaluated(u) = ct.kind() {
                        def = J::s(tcx.def_path_str(u.def));
                    }
                }
            }
        }
        J::Obj(vec![
            ("k", J::s("const")),
            ("ty", J::s(ty.to_string())),
            ("val", val),
            ("def", def),
            ("fn", fninfo),
            ("promoted", promoted),
            ("text", J::s(format!("{}", c.const_))),
        ])
    }

    /// a promoted `&CONST`: body is `_1 = const X; _0 = &_1` -> the inner constant
    fn promoted_ref(&self, def: DefId, p: Promoted) -> J {
        let tcx = self.tcx;
        if !def.is_local() {
            return J::Null;
        }
        let bodies = tcx.promoted_mir(def);
        let Some(body) = bodies.get(p) else { return J::Null };
        let mut target: Option<Local> = None;
        let mut inner: Option<J> = None;
        let sub = Cx { tcx, body, owner: self.owner };
        for bb in body.basic_blocks.iter() {
            for st in &bb.statements {
                if let StatementKind::Assign(b) = &st.kind {
                    let (pl, rv) = &**b;
                    if pl.local == RETURN_PLACE && pl.projection.is_empty() {
                        if let Rvalue::Ref(_, _, src) = rv {
                            if src.projection.is_empty() {
                                target = Some(src.local);
                            }
                        }
                    }
                }
            }
        }
        let Some(t) = target else { return J::Null };
        for bb in body.basic_blocks.iter() {
            for st in &bb.statements {
                if let StatementKind::Assign(b) = &st.kind {
                    let (pl, rv) = &**b;
                    if pl.local == t && pl.projection.is_empty() {
                        if let Rvalue::Use(Operand::Constant(c), _) = rv {
                            inner = Some(sub.constant(c));
                        }
                        // `&Enum::UnitVariant`
                        if let Rvalue::Aggregate(kind, ops) = rv {
                            if let AggregateKind::Adt(did, v, _, _, _) = &**kind {
                                if ops.is_empty() {
                                    let adt = tcx.adt_def(*did);
                                    let var = adt.variant(*v);
                                    inner = Some(J::Obj(vec![
                                        ("k", J::s("const")),
                                        ("ty", J::s(tcx.def_path_str(*did))),
                                        ("val", J::n(v.as_usize())),
                                        ("def", J::Null),
                                        ("fn", J::Null),
                                        ("promoted", J::Null),
                                        ("text", J::s(format!("{}::{}", tcx.def_path_str(*did), var.name))),
                                    ]));
                                }
                            }
                        }
                    }
                }
            }
        }
        inner.unwrap_or(J::Null)
    }

    fn operand(&self, o: &Operand<'tcx>) -> J {
        match o {
            Operand::Copy(p) => J::Obj(vec![("k", J::s("copy")), ("place", self.place(p))]),
            Operand::Move(p) => J::Obj(vec![("k", J::s("move")), ("place", self.place(p))]),
            Operand::Constant(c) => self.constant(c),
            Operand::RuntimeChecks(rc) => J::Obj(vec![("k", J::s("runtimechecks")), ("text", J::s(format!("{:?}", rc)))]),
        }
    }

    fn callee(&self, did: DefId, gargs: ty::GenericArgsRef<'tcx>) -> J {
        let tcx = self.tcx;
        let mut o: Vec<(&'static str, J)> = Vec::new();
        o.push(("path", J::s(tcx.def_path_str(did))));
        o.push(("path_args", J::s(tcx.def_path_str_with_args(did, gargs))));
        o.push(("krate", J::s(tcx.crate_name(did.krate).to_string())));
        o.push(("name", J::s(tcx.opt_item_name(did).map(|s| s.to_string()).unwrap_or_default())));
        o.push(("def_kind", J::s(format!("{:?}", tcx.def_kind(did)))));
        let gstr: Vec<J> = gargs.iter().map(|a| J::s(a.to_string())).collect();
        o.push(("gargs", J::Arr(gstr)));
        // trait method?
        let mut trait_path = J::Null;
        let mut self_ty = J::Null;
        let mut self_param = J::Bool(false);
        let mut container_kind = J::s("free");
        if matches!(tcx.def_kind(did), DefKind::AssocFn) {
            let parent = tcx.parent(did);
            match tcx.def_kind(parent) {
                DefKind::Trait => {
                    container_kind = J::s("trait");
                    trait_path = J::s(tcx.def_path_str(parent));
                    if let Some(t) = gargs.types().next() {
                        self_ty = J::s(t.to_string());
                        self_param = J::Bool(ty_is_param(t));
                    }
                }
                DefKind::Impl { of_trait } => {
                    container_kind = J::s(if of_trait { "trait_impl" } else { "inherent" });
                    let st = tcx.type_of(parent).instantiate_identity().skip_norm_wip();
                    self_ty = J::s(st.to_string());
                    if let ty::Adt(adt, _) = st.kind() {
                        o.push(("self_adt", J::s(tcx.def_path_str(adt.did()))));
                    }
                    if of_trait {
                        let tr = tcx.impl_trait_ref(parent).instantiate_identity().skip_norm_wip();
                        trait_path = J::s(tcx.def_path_str(tr.def_id));
                    }
                }
                _ => {}
            }
        }
        o.push(("container", container_kind));
        o.push(("trait", trait_path));
        o.push(("self_ty", self_ty));
        o.push(("self_param", self_param));
        // which generic args are (refs to) type parameters of the caller
        let params: Vec<J> = gargs.types().map(|t| J::Bool(ty_is_param(t))).collect();
        o.push(("targs_param", J::Arr(params)));
        // closures passed as generic args (their def paths)
        let mut closures = Vec::new();
        for t in gargs.types() {
            if let ty::Closure(cdid, _) = t.kind() {
                closures.push(J::s(tcx.def_path_str(*cdid)));
            }
        }
        o.push(("closure_args", J::Arr(closures)));
        // try to resolve to a concrete instance
        let env = TypingEnv::post_analysis(tcx, self.owner);
        let mut resolved = J::Null;
        if let Ok(Some(inst)) = ty::Instance::try_resolve(tcx, env, did, gargs) {
            let rdid = inst.def_id();
            if rdid != did {
                resolved = J::Obj(vec![
                    ("path", J::s(tcx.def_path_str(rdid))),
                    ("krate", J::s(tcx.crate_name(rdid.krate).to_string())),
                    ("kind", J::s(format!("{:?}", tcx.def_kind(rdid)))),
                ]);
            }
        }
        o.push(("resolved", resolved));
        J::Obj(o)
    }

    fn rvalue(&self, rv: &Rvalue<'tcx>) -> J {
        let tcx = self.tcx;
        match rv {
            Rvalue::Use(op, _) => J::Obj(vec![("k", J::s("use")), ("op", self.operand(op))]),
            Rvalue::Repeat(op, _) => J::Obj(vec![("k", J::s("repeat")), ("op", self.operand(op))]),
            Rvalue::Ref(_, bk, p) => J::Obj(vec![
                ("k", J::s("ref")),
                ("mut", J::Bool(matches!(bk, BorrowKind::Mut { .. }))),
                ("bk", J::s(format!("{:?}", bk))),
                ("place", self.place(p)),
            ]),
            Rvalue::ThreadLocalRef(_) => J::Obj(vec![("k", J::s("tls"))]),
            Rvalue::RawPtr(kind, p) => J::Obj(vec![
                ("k", J::s("rawptr")),
                ("mut", J::Bool(matches!(kind, RawPtrKind::Mut))),
                ("place", self.place(p)),
            ]),
            Rvalue::Cast(kind, op, ty) => J::Obj(vec![
                ("k", J::s("cast")),
                ("kind", J::s(format!("{:?}", kind))),
                ("op", self.operand(op)),
                ("ty", J::s(ty.to_string())),
            ]),
            Rvalue::BinaryOp(op, ab) => J::Obj(vec![
                ("k", J::s("bin")),
                ("op", J::s(format!("{:?}", op))),
                ("a", self.operand(&ab.0)),
                ("b", self.operand(&ab.1)),
            ]),
            Rvalue::UnaryOp(op, a) => J::Obj(vec![
                ("k", J::s("un")),
                ("op", J::s(format!("{:?}", op))),
                ("a", self.operand(a)),
            ]),
            Rvalue::Discriminant(p) => J::Obj(vec![("k", J::s("discr")), ("place", self.place(p))]),
            Rvalue::Aggregate(kind, ops) => {
                let (ks, path, variant) = match &**kind {
                    AggregateKind::Array(_) => ("array", String::new(), J::Null),
                    AggregateKind::Tuple => ("tuple", String::new(), J::Null),
                    AggregateKind::Adt(did, v, _, _, _) => {
                        let adt = tcx.adt_def(*did);
                        let var = adt.variant(*v);
                        let names: Vec<J> = var.fields.iter().map(|f| J::s(f.name.to_string())).collect();
                        (
                            "adt",
                            tcx.def_path_str(*did),
                            J::Obj(vec![("name", J::s(var.name.to_string())), ("idx", J::n(v.as_usize())), ("fields", J::Arr(names))]),
                        )
                    }
                    AggregateKind::Closure(did, _) => ("closure", tcx.def_path_str(*did), J::Null),
                    AggregateKind::Coroutine(did, _) => ("coroutine", tcx.def_path_str(*did), J::Null),
                    AggregateKind::CoroutineClosure(did, _) => ("coroutine_closure", tcx.def_path_str(*did), J::Null),
                    AggregateKind::RawPtr(_, _) => ("rawptr", String::new(), J::Null),
                };
                J::Obj(vec![
                    ("k", J::s("agg")),
                    ("akind", J::s(ks)),
                    ("path", J::s(path)),
                    ("variant", variant),
                    ("ops", J::Arr(ops.iter().map(|o| self.operand(o)).collect())),
                ])
            }
            Rvalue::CopyForDeref(p) => J::Obj(vec![("k", J::s("use")), ("op", J::Obj(vec![("k", J::s("copy")), ("place", self.place(p))]))]),
            Rvalue::WrapUnsafeBinder(op, _) => J::Obj(vec![("k", J::s("use")), ("op", self.operand(op))]),
        }
    }

    fn stmt(&self, st: &Statement<'tcx>) -> Option<J> {
        let span = span_json(self.tcx, st.source_info.span);
        match &st.kind {
            StatementKind::Assign(b) => {
                let (p, rv) = &**b;
                Some(J::Obj(vec![("k", J::s("assign")), ("place", self.place(p)), ("rv", self.rvalue(rv)), ("span", span)]))
            }
            StatementKind::SetDiscriminant { place, variant_index } => Some(J::Obj(vec![
                ("k", J::s("setdiscr")),
                ("place", self.place(place)),
                ("variant", J::n(variant_index.as_usize())),
                ("span", span),
            ])),
            StatementKind::StorageLive(_)
            | StatementKind::StorageDead(_)
            | StatementKind::Nop
            | StatementKind::FakeRead(_)
            | StatementKind::PlaceMention(_)
            | StatementKind::AscribeUserType(..)
            | StatementKind::Coverage(_)
            | StatementKind::ConstEvalCounter
            | StatementKind::BackwardIncompatibleDropHint { .. } => None,
            other => Some(J::Obj(vec![("k", J::s("other")), ("text", J::s(format!("{:?}", other))), ("span", span)])),
        }
    }

    fn term(&self, t: &Terminator<'tcx>) -> J {
        let tcx = self.tcx;
        let span = span_json(tcx, t.source_info.span);
        let bb = |b: BasicBlock| J::n(b.as_usize());
        let unwind = |u: &UnwindAction| match u {
            UnwindAction::Cleanup(b) => J::n(b.as_usize()),
            _ => J::Null,
        };
        match &t.kind {
            TerminatorKind::Goto { target } => J::Obj(vec![("k", J::s("goto")), ("target", bb(*target)), ("span", span)]),
            TerminatorKind::SwitchInt { discr, targets } => {
                let mut ts = Vec::new();
                for (v, b) in targets.iter() {
                    ts.push(J::Arr(vec![J::n(v as i128), bb(b)]));
                }
                // type of the discriminant operand
                let dty = discr.ty(&self.body.local_decls, tcx);
                J::Obj(vec![
                    ("k", J::s("switch")),
                    ("discr", self.operand(discr)),
                    ("dty", J::s(dty.to_string())),
                    ("targets", J::Arr(ts)),
                    ("otherwise", bb(targets.otherwise())),
                    ("span", span),
                ])
            }
            TerminatorKind::UnwindResume => J::Obj(vec![("k", J::s("resume")), ("span", span)]),
            TerminatorKind::UnwindTerminate(_) => J::Obj(vec![("k", J::s("terminate")), ("span", span)]),
            TerminatorKind::Return => J::Obj(vec![("k", J::s("return")), ("span", span)]),
            TerminatorKind::Unreachable => J::Obj(vec![("k", J::s("unreachable")), ("span", span)]),
            TerminatorKind::Drop { place, target, unwind: u, .. } => J::Obj(vec![
                ("k", J::s("drop")),
                ("place", self.place(place)),
                ("target", bb(*target)),
                ("unwind", unwind(u)),
                ("span", span),
            ]),
            TerminatorKind::Call { func, args, destination, target, unwind: u, fn_span, .. } => {
                let fty: Ty<'tcx> = func.ty(&self.body.local_decls, tcx);
                let callee = match fty.kind() {
                    ty::FnDef(did, gargs) => self.callee(*did, gargs),
                    _ => J::Obj(vec![("path", J::Null), ("indirect", self.operand(func)), ("fty", J::s(fty.to_string()))]),
                };
                J::Obj(vec![
                    ("k", J::s("call")),
                    ("callee", callee),
                    ("args", J::Arr(args.iter().map(|a| self.operand(&a.node)).collect())),
                    ("dest", self.place(destination)),
                    ("target", J::opt(*target, |b| bb(b))),
                    ("unwind", unwind(u)),
                    ("fn_span", span_json(tcx, *fn_span)),
                    ("span", span),
                ])
            }
            TerminatorKind::TailCall { .. } => J::Obj(vec![("k", J::s("tailcall")), ("span", span)]),
            TerminatorKind::Assert { cond, expected, msg, target, unwind: u } => {
                let (kind, ops): (String, Vec<J>) = match &**msg {
                    AssertKind::BoundsCheck { len, index } => ("BoundsCheck".into(), vec![self.operand(len), self.operand(index)]),
                    AssertKind::Overflow(op, a, b) => (format!("Overflow:{:?}", op), vec![self.operand(a), self.operand(b)]),
                    AssertKind::OverflowNeg(a) => ("OverflowNeg".into(), vec![self.operand(a)]),
                    AssertKind::DivisionByZero(a) => ("DivisionByZero".into(), vec![self.operand(a)]),
                    AssertKind::RemainderByZero(a) => ("RemainderByZero".into(), vec![self.operand(a)]),
                    AssertKind::MisalignedPointerDereference { .. } => ("MisalignedPointerDereference".into(), vec![]),
                    AssertKind::NullPointerDereference => ("NullPointerDereference".into(), vec![]),
                    AssertKind::InvalidEnumConstruction(_) => ("InvalidEnumConstruction".into(), vec![]),
                    _ => ("Other".into(), vec![]),
                };
                J::Obj(vec![
                    ("k", J::s("assert")),
                    ("cond", self.operand(cond)),
                    ("expected", J::Bool(*expected)),
                    ("msg", J::s(kind)),
                    ("ops", J::Arr(ops)),
                    ("target", bb(*target)),
                    ("unwind", unwind(u)),
                    ("span", span),
                ])
            }
            TerminatorKind::FalseEdge { real_target, .. } => J::Obj(vec![("k", J::s("goto")), ("target", bb(*real_target)), ("span", span)]),
            TerminatorKind::FalseUnwind { real_target, .. } => J::Obj(vec![("k", J::s("goto")), ("target", bb(*real_target)), ("span", span)]),
            other => J::Obj(vec![("k", J::s("other")), ("text", J::s(format!("{:?}", other))), ("span", span)]),
        }
    }
}
